# unit `dump_n` — bounded native stand-in for the whole-structure half of C19 (NodeWrapper::from / CfgWrapper::from over the Rc graph
# with HashSet edges and serde_yaml: out of reach of Verus and Kani). Public API only. Never counted as proved.
UNIT = {
    'unit': 'dump_n', 'backend': 'native',
    'functions': [{'file': 'riscv_analysis/src/cfg/test_wrapper.rs', 'item': 'impl NodeWrapper :: fn from'},
                  {'file': 'riscv_analysis/src/cfg/test_wrapper.rs', 'item': 'impl From<&Cfg> for CfgWrapper :: fn from'}],
    'obligations': [
        {'id': 'dump_n.faithful', 'recipe': ['dump-search'], 'props': ['C19'], 'kind': 'bounded', 'timeout': 600,
         'bound': '16 programs x 8 runs: one-instruction self-loops (unconditional and conditional), nested loops, calls, a function entered at two labels, '
                  'a function with two returns called twice, several labels on one instruction, an interrupt handler, two functions sharing their tail, nodes with empty fact maps (after an unconditional jump, in a loop after a call), stack / CSR / data-memory facts with negative and positive offsets',
         'clause': 'the emitted YAML loads, and written again gives the same text; node by node the text holds exactly the successors, predecessors, labels, '
                   'the (entry, exit) pairs of the owning functions, the handler flag of an entry, live-in / live-out / unconditional-definition sets and the four value-fact maps of the analysis result, '
                   'with as many entries as there are facts, and the instruction itself',
         'tier': 'quick'},
    ],
}

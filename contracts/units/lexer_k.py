# unit `lexer_k` — Lexer::new (generic Into<String> + chars().collect(): outside Verus) by Kani, bounded
UNIT = {
    'unit': 'lexer_k', 'backend': 'kani', 'crate': 'riscv_analysis',
    'weave': [{'file': 'riscv_analysis/src/parser/lexer.rs', 'append': 'kani/lexer_new_harness.rs'}],
    'functions': [{'file': 'riscv_analysis/src/parser/lexer.rs', 'item': 'impl Lexer :: fn new'}],
    'obligations': [
        {'id': 'lexer_k.new.keeps_text', 'harness': 'parser::lexer::verif_kani_lexer_new::new_keeps_text',
         'props': ['C09', 'C07'], 'kind': 'bounded',
         'bound': 'three concrete texts (CR LF inside a line, CR/LF runs, a multi-byte character with blanks)',
         'clause': 'Lexer::new(text) scans exactly the characters of text, starting at offset 0 / line 0 / column 0',
         'timeout': 600, 'tier': 'quick', 'inputs': [], 'replay': None, 'search': ['lexer-search']},
    ],
}

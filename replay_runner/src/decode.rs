//! Bounded native check of instruction decoding and pseudo-instruction expansion (public API only).
//!  (1) every base mnemonic x operand form: the node has exactly the fields the ISA manual assigns to the text;
//!  (2) every pseudo-instruction: the node it is expanded to has the same effect (register result / branch decision /
//!      jump) as the node built from its official expansion, on a grid of boundary register values.
use crate::ops::rv32;
use riscv_analysis::parser::{ParserNode, RVStringParser, InstructionProperties};
use std::panic::{catch_unwind, AssertUnwindSafe};

fn parse1(st: &str) -> Result<ParserNode, String> {
    let text = format!("{st}\nL:\n");
    let (nodes, errors) = catch_unwind(AssertUnwindSafe(|| RVStringParser::parse_from_text(&text))).map_err(|_| format!("parser panicked on {st:?}"))?;
    if !errors.is_empty() { return Err(format!("{st:?} is rejected ({} parse error(s))", errors.len())); }
    let v: Vec<ParserNode> = nodes.into_iter().filter(|n| n.is_instruction()).collect();
    if v.len() != 1 { return Err(format!("{st:?} produced {} instruction nodes", v.len())); }
    Ok(v.into_iter().next().unwrap())
}

fn describe(n: &ParserNode) -> String {
    match n {
        ParserNode::Arith(x) => format!("Arith {:?} rd={} rs1={} rs2={}", x.inst.get(), x.rd.get().to_num(), x.rs1.get().to_num(), x.rs2.get().to_num()),
        ParserNode::IArith(x) => format!("IArith {:?} rd={} rs1={} imm={}", x.inst.get(), x.rd.get().to_num(), x.rs1.get().to_num(), x.imm.get().value()),
        ParserNode::Load(x) => format!("Load {:?} rd={} rs1={} imm={}", x.inst.get(), x.rd.get().to_num(), x.rs1.get().to_num(), x.imm.get().value()),
        ParserNode::Store(x) => format!("Store {:?} rs1={} rs2={} imm={}", x.inst.get(), x.rs1.get().to_num(), x.rs2.get().to_num(), x.imm.get().value()),
        ParserNode::Branch(x) => format!("Branch {:?} rs1={} rs2={} {}", x.inst.get(), x.rs1.get().to_num(), x.rs2.get().to_num(), x.name.get().as_str()),
        ParserNode::JumpLink(x) => format!("JumpLink {:?} rd={} {}", x.inst.get(), x.rd.get().to_num(), x.name.get().as_str()),
        ParserNode::JumpLinkR(x) => format!("JumpLinkR {:?} rd={} rs1={} imm={}", x.inst.get(), x.rd.get().to_num(), x.rs1.get().to_num(), x.imm.get().value()),
        ParserNode::Csr(x) => format!("Csr {:?} rd={} csr={} rs1={}", x.inst.get(), x.rd.get().to_num(), x.csr.get().value(), x.rs1.get().to_num()),
        ParserNode::CsrI(x) => format!("CsrI {:?} rd={} csr={} imm={}", x.inst.get(), x.rd.get().to_num(), x.csr.get().value(), x.imm.get().value()),
        ParserNode::LoadAddr(x) => format!("LoadAddr rd={} {}", x.rd.get().to_num(), x.name.get().as_str()),
        ParserNode::Basic(x) => format!("Basic {:?}", x.inst.get()),
        other => format!("{other:?}"),
    }
}

/// observable effect of one node on a register file (x0 = 0)
fn effect(n: &ParserNode, regs: &[i32; 32]) -> String {
    let r = |k: u8| if k == 0 { 0 } else { regs[k as usize] };
    let lower = |s: String| s.to_lowercase();
    match n {
        ParserNode::Arith(x) => {
            let op = lower(format!("{:?}", x.inst.get()));
            let v = rv32(&op, r(x.rs1.get().to_num()), r(x.rs2.get().to_num()));
            if x.rd.get().to_num() == 0 { "nothing".into() } else { format!("x{} <- {}", x.rd.get().to_num(), v) }
        }
        ParserNode::IArith(x) => {
            let name = lower(format!("{:?}", x.inst.get()));
            let imm = x.imm.get().value();
            let v = match name.as_str() {
                "lui" => imm,
                "auipc" => return format!("x{} <- pc + {}", x.rd.get().to_num(), imm),
                _ => rv32(name.trim_end_matches('i').replace("sltiu", "sltu").as_str(), r(x.rs1.get().to_num()), imm),
            };
            if x.rd.get().to_num() == 0 { "nothing".into() } else { format!("x{} <- {}", x.rd.get().to_num(), v) }
        }
        ParserNode::Branch(x) => {
            let (a, b) = (r(x.rs1.get().to_num()), r(x.rs2.get().to_num()));
            let taken = match lower(format!("{:?}", x.inst.get())).as_str() {
                "beq" => a == b, "bne" => a != b, "blt" => a < b, "bge" => a >= b,
                "bltu" => (a as u32) < (b as u32), "bgeu" => (a as u32) >= (b as u32), _ => unreachable!(),
            };
            format!("branch {} {}", if taken { "taken to" } else { "not taken to" }, x.name.get().as_str())
        }
        ParserNode::JumpLink(x) => format!("jump to {} linking x{}", x.name.get().as_str(), x.rd.get().to_num()),
        ParserNode::JumpLinkR(x) => format!("jump to {} linking x{}", r(x.rs1.get().to_num()).wrapping_add(x.imm.get().value()), x.rd.get().to_num()),
        other => describe(other),
    }
}

const BASE: &[(&str, &str)] = &[
    ("addi s1, a0, -5", "IArith Addi rd=9 rs1=10 imm=-5"), ("andi s1, a0, 5", "IArith Andi rd=9 rs1=10 imm=5"),
    ("ori s1, a0, 5", "IArith Ori rd=9 rs1=10 imm=5"), ("xori s1, a0, 5", "IArith Xori rd=9 rs1=10 imm=5"),
    ("slti s1, a0, 5", "IArith Slti rd=9 rs1=10 imm=5"), ("sltiu s1, a0, 5", "IArith Sltiu rd=9 rs1=10 imm=5"),
    ("slli s1, a0, 5", "IArith Slli rd=9 rs1=10 imm=5"), ("srli s1, a0, 5", "IArith Srli rd=9 rs1=10 imm=5"),
    ("srai s1, a0, 5", "IArith Srai rd=9 rs1=10 imm=5"), ("lui t0, 5", "IArith Lui rd=5 rs1=0 imm=20480"),
    ("lui t0, 0xFFFFF", "IArith Lui rd=5 rs1=0 imm=-4096"),
    ("lb a0, 8(sp)", "Load Lb rd=10 rs1=2 imm=8"), ("lbu a0, 8(sp)", "Load Lbu rd=10 rs1=2 imm=8"),
    ("lh a0, 8(sp)", "Load Lh rd=10 rs1=2 imm=8"), ("lhu a0, 8(sp)", "Load Lhu rd=10 rs1=2 imm=8"),
    ("lw a0, -8(s0)", "Load Lw rd=10 rs1=8 imm=-8"), ("lw a0, (sp)", "Load Lw rd=10 rs1=2 imm=0"),
    ("sb a1, 1(t3)", "Store Sb rs1=28 rs2=11 imm=1"), ("sh a1, 2(t3)", "Store Sh rs1=28 rs2=11 imm=2"),
    ("sw a1, -4(s0)", "Store Sw rs1=8 rs2=11 imm=-4"), ("sw ra, (sp)", "Store Sw rs1=2 rs2=1 imm=0"),
    ("beq t0, t1, L", "Branch Beq rs1=5 rs2=6 L"), ("bne t0, t1, L", "Branch Bne rs1=5 rs2=6 L"),
    ("blt t0, t1, L", "Branch Blt rs1=5 rs2=6 L"), ("bge t0, t1, L", "Branch Bge rs1=5 rs2=6 L"),
    ("bltu t0, t1, L", "Branch Bltu rs1=5 rs2=6 L"), ("bgeu t0, t1, L", "Branch Bgeu rs1=5 rs2=6 L"),
    ("jal L", "JumpLink Jal rd=1 L"), ("jal t0, L", "JumpLink Jal rd=5 L"),
    ("jalr t0, t1, 4", "JumpLinkR Jalr rd=5 rs1=6 imm=4"), ("jalr t0, 4(t1)", "JumpLinkR Jalr rd=5 rs1=6 imm=4"),
    ("jalr t0, (t1)", "JumpLinkR Jalr rd=5 rs1=6 imm=0"), ("jalr t0, 8", "JumpLinkR Jalr rd=1 rs1=5 imm=8"), ("jalr t0, -8(sp)", "JumpLinkR Jalr rd=5 rs1=2 imm=-8"),
    ("lw a0, 12", "Load Lw rd=10 rs1=0 imm=12"), ("sw a1, 12", "Store Sw rs1=0 rs2=11 imm=12"), ("sh a1, -2(s1)", "Store Sh rs1=9 rs2=11 imm=-2"),
    ("lhu t3, 0(t4)", "Load Lhu rd=28 rs1=29 imm=0"), ("sltiu a0, a1, -1", "IArith Sltiu rd=10 rs1=11 imm=-1"), ("srai a0, a1, 31", "IArith Srai rd=10 rs1=11 imm=31"),
    ("csrrw t0, 64, t1", "Csr Csrrw rd=5 csr=64 rs1=6"), ("csrrs t0, 65, t1", "Csr Csrrs rd=5 csr=65 rs1=6"),
    ("csrrc t0, 66, t1", "Csr Csrrc rd=5 csr=66 rs1=6"), ("csrrwi t0, 64, 3", "CsrI Csrrwi rd=5 csr=64 imm=3"),
    ("csrrsi t0, 64, 3", "CsrI Csrrsi rd=5 csr=64 imm=3"), ("csrrci t0, 64, 3", "CsrI Csrrci rd=5 csr=64 imm=3"),
    ("csrrw t0, uscratch, t1", "Csr Csrrw rd=5 csr=64 rs1=6"),
    ("ecall", "Basic Ecall"), ("ebreak", "Basic Ebreak"), ("uret", "Basic Uret"), ("la a0, L", "LoadAddr rd=10 L"),
];
const RTYPE: &[&str] = &["add", "and", "or", "sll", "slt", "sltu", "sra", "srl", "sub", "xor", "mul", "mulh", "mulhsu", "mulhu", "div", "divu", "rem", "remu"];

/// pseudo-instruction, official expansion (RISC-V assembly manual; RARS for the csr forms and `b`)
const PSEUDO: &[(&str, &str)] = &[
    ("beqz t0, L", "beq t0, x0, L"), ("bnez t0, L", "bne t0, x0, L"), ("bltz t0, L", "blt t0, x0, L"), ("bgez t0, L", "bge t0, x0, L"),
    ("bgtz t0, L", "blt x0, t0, L"), ("blez t0, L", "bge x0, t0, L"), ("bgt t0, t1, L", "blt t1, t0, L"), ("ble t0, t1, L", "bge t1, t0, L"),
    ("bgtu t0, t1, L", "bltu t1, t0, L"), ("bleu t0, t1, L", "bgeu t1, t0, L"), ("j L", "jal x0, L"), ("b L", "jal x0, L"),
    ("jr t0", "jalr x0, t0, 0"), ("ret", "jalr x0, ra, 0"), ("call L", "jal ra, L"), ("li t1, -7", "addi t1, x0, -7"),
    ("mv t1, t0", "addi t1, t0, 0"), ("neg t1, t0", "sub t1, x0, t0"), ("not t1, t0", "xori t1, t0, -1"), ("seqz t1, t0", "sltiu t1, t0, 1"),
    ("snez t1, t0", "sltu t1, x0, t0"), ("sltz t1, t0", "slt t1, t0, x0"), ("sgtz t1, t0", "slt t1, x0, t0"), ("nop", "addi x0, x0, 0"),
    ("csrr t1, 64", "csrrs t1, 64, x0"), ("csrw t0, 64", "csrrw x0, 64, t0"), ("csrs t0, 64", "csrrs x0, 64, t0"), ("csrc t0, 64", "csrrc x0, 64, t0"),
    ("csrwi 64, 3", "csrrwi x0, 64, 3"), ("csrsi 64, 3", "csrrsi x0, 64, 3"), ("csrci 64, 3", "csrrci x0, 64, 3"), ("jalr t0", "jalr ra, t0, 0"),
];

/// statements that expand to two instructions (RARS): statement -> the two nodes
const TWO: &[(&str, &str, &str)] = &[
    ("lw a0, L", "LoadAddr rd=10 L", "Load Lw rd=10 rs1=10 imm=0"),
    ("lbu t1, L", "LoadAddr rd=6 L", "Load Lbu rd=6 rs1=6 imm=0"),
    ("sw a0, L, t0", "LoadAddr rd=5 L", "Store Sw rs1=5 rs2=10 imm=0"),
    ("sb a1, L, t2", "LoadAddr rd=7 L", "Store Sb rs1=7 rs2=11 imm=0"),
    ("sw a0, 64, t0", "IArith Addi rd=5 rs1=0 imm=64", "Store Sw rs1=5 rs2=10 imm=0"),
];

fn parse2(st: &str) -> Result<Vec<ParserNode>, String> {
    let text = format!("{st}\nL:\n");
    let (nodes, errors) = catch_unwind(AssertUnwindSafe(|| RVStringParser::parse_from_text(&text))).map_err(|_| format!("parser panicked on {st:?}"))?;
    if !errors.is_empty() { return Err(format!("{st:?} is rejected ({} parse error(s))", errors.len())); }
    Ok(nodes.into_iter().filter(|n| n.is_instruction()).collect())
}

/// statements the manual does not allow: they must be rejected with a parse error, never decoded
const REJECT: &[&str] = &["lui t0, 0x100000", "lui t0, -1", "lui t0, 1048576", "addi t0, t1", "add t0, t1, 5", "lw t0, 4(5)", "beq t0, t1", "jal 5",
                          "li t0, 4294967296", "li t0, -2147483649", "li t0, 0x1FFFFFFFF", "addi t0, t0, 0b2", "li t0, 12a"];

pub fn search(_v: &serde_json::Value) -> i32 {
    let mut n = 0;
    for st in REJECT {
        n += 1;
        if let Ok(node) = parse1(st) { println!("witness: {st:?} must be rejected but is decoded as `{}`", describe(&node)); return 1; }
    }
    let mut check_base = |st: String, want: String| -> Option<String> {
        match parse1(&st) { Err(e) => Some(e), Ok(node) => { let got = describe(&node); if got == want { None } else { Some(format!("{st:?} is decoded as `{got}`, the manual assigns `{want}`")) } } }
    };
    for (st, w1, w2) in TWO {
        n += 1;
        match parse2(st) {
            Err(e) => { println!("witness: {e}"); return 1; }
            Ok(v) => {
                let got: Vec<String> = v.iter().map(describe).collect();
                if got != vec![w1.to_string(), w2.to_string()] { println!("witness: {st:?} is decoded as {got:?}, the manual's expansion is [`{w1}`, `{w2}`]"); return 1; }
            }
        }
    }
    for (st, want) in BASE { n += 1; if let Some(w) = check_base(st.to_string(), want.to_string()) { println!("witness: {w}"); return 1; } }
    for m in RTYPE {
        n += 1;
        let mut c = m.chars(); let cap = c.next().unwrap().to_uppercase().collect::<String>() + c.as_str();
        if let Some(w) = check_base(format!("{m} t0, t1, t2"), format!("Arith {cap} rd=5 rs1=6 rs2=7")) { println!("witness: {w}"); return 1; }
        if let Some(w) = check_base(format!("{} x31, s11, a7", m.to_uppercase()), format!("Arith {cap} rd=31 rs1=27 rs2=17")) { println!("witness: {w}"); return 1; }
    }
    let grid = [0i32, 1, -1, 2, i32::MIN, i32::MAX, 7, -8];
    for (ps, official) in PSEUDO {
        n += 1;
        let (a, b) = match (parse1(ps), parse1(official)) { (Ok(a), Ok(b)) => (a, b), (Err(e), _) | (_, Err(e)) => { println!("witness: {e}"); return 1; } };
        for x in grid { for y in grid {
            let mut regs = [0i32; 32];
            regs[5] = x; regs[6] = y; regs[1] = 0x1000;
            let (ea, eb) = (effect(&a, &regs), effect(&b, &regs));
            if ea != eb {
                println!("witness: `{ps}` is expanded to `{}`; with t0={x}, t1={y} it does `{ea}` but its official expansion `{official}` does `{eb}`", describe(&a));
                return 1;
            }
        } }
    }
    println!("no failing input among {n} mnemonic/operand forms (base forms: exact fields; pseudo forms: same effect as the official expansion on an 8x8 operand grid)");
    0
}

/// witnesses of the carve-outs written into the decode contract (KNOWN_FINDINGS.txt `finding:` lines):
/// exit 1 while the defect is still present
pub fn finding(which: &str) -> i32 {
    match which {
        "sgez" => match parse1("sgez t0, L") {
            Ok(n) if matches!(n, ParserNode::Branch(_)) => { println!("`sgez t0, L` is accepted and built as `{}`", describe(&n)); 1 }
            other => { println!("`sgez t0, L` now gives {:?}", other.map(|n| describe(&n))); 0 }
        },
        "auipc" => match (parse1("auipc t0, 5"), parse1("auipc t0, t1, 5")) {
            (Err(_), Ok(n)) => { println!("`auipc t0, 5` is rejected while `auipc t0, t1, 5` is accepted as `{}`", describe(&n)); 1 }
            (a, b) => { println!("auipc: {:?} / {:?}", a.map(|n| describe(&n)), b.map(|n| describe(&n))); 0 }
        },
        _ => 2,
    }
}

/// the statement texts of all tables (used by the line-accounting search)
pub fn statement_forms() -> Vec<String> {
    let mut v: Vec<String> = Vec::new();
    for (st, _) in BASE { v.push(st.to_string()); }
    for (st, _, _) in TWO { v.push(st.to_string()); }
    v
}

# unit `decode` (U6) — ParserNode::try_from: decode table and pseudo-instruction expansion over an abstract token stream (Verus)
import os, sys
sys.path.insert(0, os.path.dirname(os.path.abspath(__file__)))
from lib import nodetypes, mk
P = 'riscv_analysis/src/parser/'
PARSING = P + 'parsing.rs'

def item(file, path, wrap, fn, **kw):
    d = {'file': P + file, 'item': path, 'wrap': wrap, 'fn': fn, 'attrs': 'drop'}
    d.update(kw)
    return d

items = [i for i in nodetypes.type_items() if i['item'] not in ('struct With', 'struct Token', 'struct RawToken')]
items += [
    {'file': P + 'with.rs', 'item': 'struct With', 'attrs': 'drop'},
    {'file': P + 'token.rs', 'item': 'struct Token', 'attrs': 'drop'},
    {'file': P + 'rawtoken.rs', 'item': 'struct RawToken', 'attrs': 'drop'},
    {'file': P + 'error.rs', 'item': 'enum ExpectedType', 'attrs': 'drop', 'pre_lines': ['#[derive(Clone)]']},
    {'file': P + 'error.rs', 'item': 'enum LexError', 'attrs': 'drop'},   # Clone modelled in decode_spec.rs
    item('with.rs', 'impl With<T> :: fn new', 'impl<T> With<T>', 'With::new', ret='r', ensures=[('post', 'r.sdata() == data && r.stoken() == token')]),
    item('with.rs', 'impl With<T> :: fn get', 'impl<T> With<T>', 'With::get', ret='r', ensures=[('post', '*r == self.sdata()')]),
    item('with.rs', 'impl With<T> :: fn get_mut', 'impl<T> With<T>', 'With::get_mut', ret='r',
         ensures=[('post', '*r == old(self).sdata() && final(self).sdata() == *final(r) && final(self).stoken() == old(self).stoken()')]),
    item('with.rs', 'impl With<T> :: fn token', 'impl<T> With<T>', 'With::token', ret='r', ensures=[('post', '*r == self.stoken()')]),
    item('token.rs', 'impl Token :: fn token_type', 'impl Token', 'Token::token_type', ret='r', ensures=[('post', '*r == self.s_type()')]),
    item('imm.rs', 'impl Imm :: fn new', 'impl Imm', 'Imm::new', ret='r', ensures=[('post', 'r.sval() == value')]),
    item('imm.rs', 'impl Imm :: fn value', 'impl Imm', 'Imm::value', ret='r', ensures=[('post', 'r == self.sval()')]),
    item('inst.rs', 'impl From<&Inst> for Type :: fn from', 'impl Type', 'Type::from', ret='r', ensures=[('table', 'type_spec(*value, r)')]),
]
CONS = {'arith': ('Arith', ['inst', 'rd', 'rs1', 'rs2']), 'iarith': ('IArith', ['inst', 'rd', 'rs1', 'imm']), 'jump_link': ('JumpLink', ['inst', 'rd', 'name']), 'jump_link_r': ('JumpLinkR', ['inst', 'rd', 'rs1', 'imm']), 'basic': ('Basic', ['inst']), 'branch': ('Branch', ['inst', 'rs1', 'rs2', 'name']), 'store': ('Store', ['inst', 'rs1', 'rs2', 'imm']), 'load': ('Load', ['inst', 'rd', 'rs1', 'imm']), 'csr': ('Csr', ['inst', 'rd', 'csr', 'rs1']), 'csri': ('CsrI', ['inst', 'rd', 'csr', 'imm']), 'label': ('Label', ['name']), 'load_addr': ('LoadAddr', ['inst', 'rd', 'name']), 'directive': ('Directive', ['dir_token', 'dir'])}
for c, (variant, fields) in CONS.items():
    post = 'r matches ParserNode::%s(x) && ' % variant + ' && '.join('x.%s == %s' % (f, f) for f in fields)
    items.append(item('node.rs', 'impl ParserNode :: fn new_' + c, 'impl ParserNode', 'new_' + c, ret='r', ensures=[('post', post)]))
items += [
    {'file': PARSING, 'item': 'struct AnnotatedLexer', 'attrs': 'drop'},
    {'file': PARSING, 'item': "impl AnnotatedLexer<'_> :: fn peek_any", 'wrap': "impl AnnotatedLexer<'_>", 'fn': 'peek_any', 'attrs': 'drop', 'ret': 'r',
     'rewrites': [('lit', 'item.clone()', 'verif_clone_item(item)', 1)],
     'ensures': [('stream', 'final(self).lexer.remaining() == old(self).lexer.remaining() && (if old(self).lexer.remaining().len() == 0 { r is Err } else { r == old(self).lexer.remaining()[0] })')]},
    {'file': PARSING, 'item': "impl AnnotatedLexer<'_> :: fn peek_lparen", 'wrap': "impl AnnotatedLexer<'_>", 'fn': 'peek_lparen', 'attrs': 'drop', 'ret': 'r',
     'rewrites': [('lit', 'item.clone()', 'verif_clone_item(item)', 1)],
     'ensures': [('stream', 'final(self).lexer.remaining() == old(self).lexer.remaining() && (if old(self).lexer.remaining().len() == 0 { r matches Ok(b) && !b } else { match old(self).lexer.remaining()[0] { Ok(t) => r matches Ok(b) && (b <==> t.s_type() is LParen), Err(_) => r is Err } })')]},
    {'file': PARSING, 'item': "impl AnnotatedLexer<'_> :: fn peek_reg", 'wrap': "impl AnnotatedLexer<'_>", 'fn': 'peek_reg', 'attrs': 'drop', 'ret': 'r',
     'rewrites': [('lit', 'item.clone()', 'verif_clone_item(item)', 1)],
     'ensures': [('stream', 'final(self).lexer.remaining() == old(self).lexer.remaining() && (if old(self).lexer.remaining().len() == 0 { r matches Ok(o) && o is None } else { match old(self).lexer.remaining()[0] { Ok(t) => r matches Ok(o) && (match o { Some(w) => reg_of(t) == Some(w.sdata()) && w.stoken() == t, None => reg_of(t) is None }), Err(_) => r is Err } })')]},
    {'file': PARSING, 'item': "impl AnnotatedLexer<'_> :: fn get_reg", 'wrap': "impl AnnotatedLexer<'_>", 'fn': 'get_reg', 'attrs': 'drop', 'ret': 'r',
     'ensures': [('stream', 'took_reg(old(self).lexer.remaining(), final(self).lexer.remaining(), r)')]},
    {'file': PARSING, 'item': "impl AnnotatedLexer<'_> :: fn get_imm", 'wrap': "impl AnnotatedLexer<'_>", 'fn': 'get_imm', 'attrs': 'drop', 'ret': 'r',
     'ensures': [('stream', 'took_imm(old(self).lexer.remaining(), final(self).lexer.remaining(), r)')]},
    {'file': PARSING, 'item': "impl AnnotatedLexer<'_> :: fn get_label", 'wrap': "impl AnnotatedLexer<'_>", 'fn': 'get_label', 'attrs': 'drop', 'ret': 'r',
     'ensures': [('stream', 'took_label(old(self).lexer.remaining(), final(self).lexer.remaining(), r)')]},
    {'file': PARSING, 'item': "impl AnnotatedLexer<'_> :: fn get_csrimm", 'wrap': "impl AnnotatedLexer<'_>", 'fn': 'get_csrimm', 'attrs': 'drop', 'ret': 'r',
     'ensures': [('stream', 'took_csr(old(self).lexer.remaining(), final(self).lexer.remaining(), r)')]},
    {'file': PARSING, 'item': "impl AnnotatedLexer<'_> :: fn get_string", 'wrap': "impl AnnotatedLexer<'_>", 'fn': 'get_string', 'attrs': 'drop', 'ret': 'r'},
    {'file': PARSING, 'item': "impl AnnotatedLexer<'_> :: fn expect_rparen", 'wrap': "impl AnnotatedLexer<'_>", 'fn': 'expect_rparen', 'attrs': 'drop', 'ret': 'r',
     'ensures': [('stream', 'if old(self).lexer.remaining().len() == 0 { r is Err && final(self).lexer.remaining() == old(self).lexer.remaining() } else { final(self).lexer.remaining() == old(self).lexer.remaining().skip(1) && (r is Ok ==> old(self).lexer.remaining()[0] is Ok && tk(old(self).lexer.remaining(), 0).s_type() is RParen) }')]},
    {'file': PARSING, 'item': 'impl Token :: fn as_lparen', 'wrap': 'impl Token', 'fn': 'as_lparen', 'attrs': 'drop', 'ret': 'r',
     'ensures': [('post', 'r is Ok <==> self.s_type() is LParen')]},
    {'file': PARSING, 'item': 'impl Token :: fn as_rparen', 'wrap': 'impl Token', 'fn': 'as_rparen', 'attrs': 'drop', 'ret': 'r',
     'ensures': [('post', 'r is Ok <==> self.s_type() is RParen')]},
    {'file': PARSING, 'item': 'impl Token :: fn as_string', 'wrap': 'impl Token', 'fn': 'as_string', 'attrs': 'drop', 'ret': 'r'},
    {'file': PARSING, 'item': 'impl TryFrom<&mut Peekable<Lexer>> for ParserNode :: fn try_from', 'wrap': 'impl ParserNode', 'fn': 'try_from', 'attrs': 'drop', 'ret': 'r',
     'requires_text': ['type Error = LexError;'],
     'ensures': [('table', 'decoded(old(val).remaining(), r)')],
     'anchors': [{'at': 'let new_imm = Imm::new(imm.get().value() << 12);', 'where': 'before',
                  'lines': ['proof { lemma_shl12(imm.sdata().sval()); }']}],
     'loops': {0: {'invariant': [('frame', 'true')], 'decreases': 'lex.lexer.remaining().len()'},
               1: {'invariant': [('frame', 'true')], 'decreases': 'lex.lexer.remaining().len()'}},
     # R9: closure parameter pattern `()` is unsupported by Verus; a named parameter of type () is the same closure
     'rewrites': [(r'Self::Error', 'LexError', 1), ('lit', '.map_err(|()| {', '.map_err(|_unit: ()| {', 1)]},
]
UNIT = {
    'unit': 'decode', 'backend': 'verus',
    'tier': 'thorough',        # the per-form table of try_from is one verification condition of ~7 min (rlimit 2000)
    'uses': ['use vstd::std_specs::cmp::{PartialEqSpec, PartialEqSpecImpl};'],
    'prelude': ['verus/decode_spec.rs'],
    'rlimit': 2000,
    'verus_flags': ['--multiple-errors', '2'],
    'verus_timeout': 3000,
    'items': items, 'functions': [], 'obligations': [],
    'known_finding_witnesses': [{'properties': ['C08'], 'carve': 'sgez', 'recipe': ['decode-finding', 'sgez']}],
}
TEXTS = {
    ('try_from', 'table'): 'for every token stream whose first token is a mnemonic: if a node is returned it means what the manual assigns to the operand tokens '
                           '(one line per mnemonic / operand form in contracts/verus/decode_spec.rs::official; pseudo-instructions against the meaning of their '
                           'official expansion, reading x0 = reading 0); carve-out: sgez; lui / auipc: 20-bit operand range and value operand * 4096',
    ('Type::from', 'table'): 'the mnemonic -> instruction format table agrees with the manual for all 110 mnemonics',
    'stream': 'reads exactly the next item of the token stream and interprets it as the operand kind asked for',
    'post': 'builds exactly the node / value it is given',
}
mk.make(UNIT, {'try_from': ['C08', 'C17']}, TEXTS, default=['C08'], search=['decode-search'])

use riscv_analysis::cfg::{environment_in_outs, RegisterSet};
use riscv_analysis::parser::{HasRegisterSets, Register};
use std::str::FromStr;

fn reg(n: u8) -> Register { Register::from_num(n).expect("0..32") }
fn mk(v: u32) -> RegisterSet { (0..32u8).filter(|i| v >> i & 1 == 1).map(reg).collect() }
fn view(s: &RegisterSet) -> u32 { (0..32u8).filter(|i| s.contains(&reg(*i))).fold(0, |a, i| a | 1 << i) }

const T: u32 = (0b111 << 5) | (0b1111 << 28);
const S: u32 = (0b11 << 8) | (0b11_1111_1111 << 18);
const A: u32 = 0b1111_1111 << 10;

macro_rules! chk { ($bad:ident, $c:expr, $($m:tt)*) => { if !($c) { println!($($m)*); $bad += 1; } } }

pub fn run(id: &str, v: &serde_json::Value) -> i32 {
    let g = |k: &str| crate::geti(v, k);
    let mut bad = 0;
    // conversions (finite, exhaustive)
    for n in 0..=255u8 {
        match Register::from_num(n) {
            Ok(r) => { chk!(bad, n < 32 && r.to_num() == n && r as u8 == n, "from_num({n}) = {r:?} with to_num {}", r.to_num()); }
            Err(_) => { chk!(bad, n >= 32, "from_num({n}) rejected"); }
        }
    }
    let abi = ["zero","ra","sp","gp","tp","t0","t1","t2","s0","s1","a0","a1","a2","a3","a4","a5","a6","a7","s2","s3","s4","s5","s6","s7","s8","s9","s10","s11","t3","t4","t5","t6"];
    for (k, name) in abi.iter().enumerate() {
        chk!(bad, Register::from_str(name).map(|r| r as usize) == Ok(k), "Register::from_str({name:?}) = {:?}, expected x{k}", Register::from_str(name));
        let xn = format!("x{k}");
        chk!(bad, Register::from_str(&xn).map(|r| r as usize) == Ok(k), "Register::from_str({xn:?}) = {:?}", Register::from_str(&xn));
        chk!(bad, reg(k as u8).to_string() == *name, "Display(x{k}) = {}", reg(k as u8));
    }
    chk!(bad, Register::from_str("fp").map(|r| r as u8) == Ok(8), "fp is not x8");
    for n in ["x32", "s12", "t7", "a8", ""] { chk!(bad, Register::from_str(n).is_err(), "{n:?} accepted as a register"); }
    // tables
    let tabs: [(&str, RegisterSet, u32); 12] = [
        ("temporary_set", Register::temporary_set(), T), ("saved_set", Register::saved_set(), S),
        ("argument_set", Register::argument_set(), A), ("return_set", Register::return_set(), A),
        ("program_args_set", Register::program_args_set(), 3 << 10), ("all_writable_set", Register::all_writable_set(), !1),
        ("sp_ra_set", Register::sp_ra_set(), 0b110), ("return_addr_set", Register::return_addr_set(), 0b10),
        ("const_zero_set", Register::const_zero_set(), 1), ("ecall_always_argument_set", Register::ecall_always_argument_set(), 1 << 17),
        ("caller_saved_set", Register::caller_saved_set(), T | A), ("callee_saved_set", Register::callee_saved_set(), S | 0b110)];
    for (name, set, want) in tabs.iter() {
        chk!(bad, view(set) == *want, "{name} = {set} but the psABI class is {}", mk(*want));
    }
    chk!(bad, view(&Register::all()) == u32::MAX, "Register::all() = {}", Register::all());
    // set operations on the recorded (or default) inputs
    let a = g("a").or(g("s")).unwrap_or(0x8000_0421) as u32;
    let b = g("b").unwrap_or(0x0000_0c21) as u32;
    let r = reg((g("r").unwrap_or(5) as u8) & 31);
    let rb = 1u32 << r.to_num();
    let (sa, sb) = (mk(a), mk(b));
    chk!(bad, view(&sa) == a, "collect/contains disagree on view {a:#x}: {sa}");
    chk!(bad, view(&(sa & sb)) == a & b, "& wrong on {sa} {sb}");
    chk!(bad, view(&(sa | sb)) == a | b, "| wrong on {sa} {sb}");
    chk!(bad, view(&(sa - sb)) == a & !b, "- wrong on {sa} {sb}");
    chk!(bad, view(&(sa & r)) == a & rb, "& reg wrong on {sa} {r}");
    chk!(bad, view(&(sa | r)) == a | rb, "| reg wrong on {sa} {r}");
    chk!(bad, view(&(sa - r)) == a & !rb, "- reg wrong on {sa} {r}");
    let mut c = sa; c.set_register(&r); chk!(bad, view(&c) == a | rb, "set_register({r}) on {sa} gives {c}");
    let mut c = sa; c.unset_register(&r); chk!(bad, view(&c) == a & !rb, "unset_register({r}) on {sa} gives {c}");
    chk!(bad, view(&RegisterSet::from_register(r)) == rb, "from_register({r}) = {}", RegisterSet::from_register(r));
    chk!(bad, sa.is_empty() == (a == 0), "is_empty wrong on {sa}");
    let listed: Vec<u8> = sa.iter().map(Register::to_num).collect();
    let want: Vec<u8> = (0..32u8).filter(|i| a >> i & 1 == 1).collect();
    chk!(bad, listed == want, "iteration over {a:#x} yields {listed:?}, members are {want:?}");
    // iterator from an arbitrary cursor (recorded `cur`): make the public iterator reach that cursor by
    // iterating the set {cur-1} + (s restricted to >= cur) and dropping the first element
    if let Some(cur) = g("cur") {
        let cur = (cur as u32).min(32);
        let hi = if cur >= 32 { 0 } else { a & !((1u32 << cur) - 1) };
        let probe = if cur >= 1 { hi | (1u32 << (cur - 1)) } else { hi };
        let listed: Vec<u8> = mk(probe).iter().map(Register::to_num).collect();
        let want: Vec<u8> = (0..32u8).filter(|i| probe >> i & 1 == 1).collect();
        chk!(bad, listed == want, "iteration over {probe:#x} (cursor reaches {cur}) yields {listed:?}, members are {want:?}");
    }
    // adjacent pairs and the full set exercise every cursor position
    for lo in 0..31u8 {
        let v = 3u32 << lo;
        let listed: Vec<u8> = mk(v).iter().map(Register::to_num).collect();
        chk!(bad, listed == vec![lo, lo + 1], "iteration over {{x{lo}, x{}}} yields {listed:?}", lo + 1);
    }
    chk!(bad, Register::all().iter().count() == 32, "Register::all() iterates over {} registers", Register::all().iter().count());
    // ecall table
    let n = g("n").unwrap_or(1) as i32;
    for k in [n, 10, 93, 1, 8, 17, 30, 31, 54, 64, 1024] {
        if let Some((ar, re)) = environment_in_outs(k) {
            chk!(bad, view(&ar) & !A == 0 && view(&re) & !A == 0, "ecall {k} names non-argument registers: {ar} {re}");
        }
    }
    if bad == 0 { println!("regs/{id}: the real code satisfies every native re-check on the recorded input"); 0 } else { 1 }
}

// ---- woven by /verif (unit U2 `regs`): register-class tables against the psABI ----
#[cfg(kani)]
mod verif_kani_tables {
    use crate::cfg::verif_kani_regset::view;
    use crate::parser::{HasRegisterSets, Register};

    // RISC-V psABI, "Integer Register Convention"
    const T: u32 = (0b111 << 5) | (0b1111 << 28);              // t0-t2 = x5-x7, t3-t6 = x28-x31
    const S: u32 = (0b11 << 8) | (0b11_1111_1111 << 18);       // s0-s1 = x8-x9, s2-s11 = x18-x27
    const A: u32 = 0b1111_1111 << 10;                          // a0-a7 = x10-x17
    const ZERO: u32 = 1; const RA: u32 = 1 << 1; const SP: u32 = 1 << 2;

    #[kani::proof]
    #[kani::unwind(34)]
    fn tables_equal_psabi() {
        assert!(view(&Register::temporary_set()) == T, "temporary_set != t0-t6");
        assert!(view(&Register::saved_set()) == S, "saved_set != s0-s11");
        assert!(view(&Register::argument_set()) == A, "argument_set != a0-a7");
        assert!(view(&Register::return_set()) == A, "return_set != a0-a7");
        assert!(view(&Register::program_args_set()) == (1 << 10) | (1 << 11));
        assert!(view(&Register::all_writable_set()) == !ZERO, "all_writable_set != x1-x31");
        assert!(view(&Register::sp_ra_set()) == SP | RA);
        assert!(view(&Register::return_addr_set()) == RA);
        assert!(view(&Register::const_zero_set()) == ZERO);
        assert!(view(&Register::ecall_always_argument_set()) == 1 << 17);
        // derived identities stated in the property
        assert!(view(&Register::caller_saved_set()) == T | A, "caller-saved != t + a");
        assert!(view(&Register::callee_saved_set()) == S | SP | RA, "callee-saved != s + sp + ra");
        assert!(view(&Register::caller_saved_set()) & view(&Register::callee_saved_set()) == 0);
    }

    fn tables() -> [u32; 12] {
        [view(&Register::program_args_set()), view(&Register::temporary_set()), view(&Register::argument_set()),
         view(&Register::return_set()), view(&Register::all_writable_set()), view(&Register::saved_set()),
         view(&Register::sp_ra_set()), view(&Register::return_addr_set()), view(&Register::caller_saved_set()),
         view(&Register::callee_saved_set()), view(&Register::ecall_always_argument_set()),
         view(&Register::const_zero_set())]
    }

    /// Class uniformity (what renaming-equivariance of the tables means): every table contains
    /// either all or none of the temporaries, and all or none of the saved registers.
    #[kani::proof]
    #[kani::unwind(34)]
    fn tables_uniform_within_class() {
        let ts = tables();
        let k: usize = kani::any();
        kani::assume(k < 12);
        let v = ts[k];
        assert!(v & T == 0 || v & T == T, "a table splits the temporary class");
        assert!(v & S == 0 || v & S == S, "a table splits the saved class");
    }
}

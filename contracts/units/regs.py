# U2 `regs` — Register conversions, RegisterSet, class tables, ecall table (Kani, complete)
def ob(id_, harness, props, clause, inputs=None, timeout=300, tier='quick', replay=None):
    return {'id': 'regs.' + id_, 'harness': harness, 'props': props, 'kind': 'complete', 'clause': clause,
            'timeout': timeout, 'tier': tier, 'inputs': inputs or [], 'replay': replay or ['regs', id_],
            'search': ['regs', 'search']}

REG = 'parser::register::verif_kani_register::'
SET = 'cfg::register_set::verif_kani_regset::'
TAB = 'parser::register_has_register_set::verif_kani_tables::'
ECL = 'cfg::ecall::verif_kani_ecall::'

UNIT = {
    'unit': 'regs',
    'backend': 'kani',
    'crate': 'riscv_analysis',
    'weave': [
        {'file': 'riscv_analysis/src/parser/register.rs',
         'attrs': [
             {'item': 'enum Register', 'lines': ['#[cfg_attr(kani, derive(kani::Arbitrary))]']},
             {'item': 'impl Register :: fn to_num',
              'lines': ['#[cfg_attr(kani, kani::ensures(|n: &u8| *n < 32 && *n == self as u8))]']},
             {'item': 'impl Register :: fn from_num',
              'lines': ['#[cfg_attr(kani, kani::ensures(|r: &Result<Register, ParseRegisterError>| match r { Ok(x) => num < 32 && *x as u8 == num, Err(_) => num >= 32 }))]']},
         ],
         'append': 'kani/regs_register.rs'},
        {'file': 'riscv_analysis/src/cfg/register_set.rs',
         'attrs': [
             {'item': 'impl RegisterSet :: fn new',
              'lines': ['#[cfg_attr(kani, kani::ensures(|s: &RegisterSet| s.registers == 0))]']},
             {'item': 'impl RegisterSet :: fn from_register',
              'lines': ['#[cfg_attr(kani, kani::ensures(|s: &RegisterSet| s.registers == 1u32 << (register as u8)))]']},
             {'item': 'impl RegisterSet :: fn set_register',
              'lines': ['#[cfg_attr(kani, kani::modifies(&self.registers))]',
                        '#[cfg_attr(kani, kani::ensures(|_| self.registers == old(self.registers) | (1u32 << (*register as u8))))]']},
             {'item': 'impl RegisterSet :: fn unset_register',
              'lines': ['#[cfg_attr(kani, kani::modifies(&self.registers))]',
                        '#[cfg_attr(kani, kani::ensures(|_| self.registers == old(self.registers) & !(1u32 << (*register as u8))))]']},
             {'item': 'impl RegisterSet :: fn contains',
              'lines': ['#[cfg_attr(kani, kani::ensures(|b: &bool| *b == ((self.registers >> (*register as u8)) & 1 == 1)))]']},
             {'item': 'impl RegisterSet :: fn is_empty',
              'lines': ['#[cfg_attr(kani, kani::ensures(|b: &bool| *b == (self.registers == 0)))]']},
         ],
         'append': 'kani/regs_set.rs'},
        {'file': 'riscv_analysis/src/parser/register_has_register_set.rs', 'append': 'kani/regs_tables.rs'},
        {'file': 'riscv_analysis/src/cfg/ecall.rs', 'append': 'kani/regs_ecall.rs'},
    ],
    'functions': [
        {'file': 'riscv_analysis/src/parser/register.rs', 'item': 'impl Register :: fn to_num'},
        {'file': 'riscv_analysis/src/parser/register.rs', 'item': 'impl Register :: fn from_num'},
        {'file': 'riscv_analysis/src/parser/register.rs', 'item': 'impl Register :: fn all'},
        {'file': 'riscv_analysis/src/parser/register.rs', 'item': 'impl FromStr for Register :: fn from_str'},
        {'file': 'riscv_analysis/src/cfg/register_set.rs', 'item': 'impl RegisterSet :: fn new'},
        {'file': 'riscv_analysis/src/cfg/register_set.rs', 'item': 'impl RegisterSet :: fn from_register'},
        {'file': 'riscv_analysis/src/cfg/register_set.rs', 'item': 'impl RegisterSet :: fn set_register'},
        {'file': 'riscv_analysis/src/cfg/register_set.rs', 'item': 'impl RegisterSet :: fn unset_register'},
        {'file': 'riscv_analysis/src/cfg/register_set.rs', 'item': 'impl RegisterSet :: fn contains'},
        {'file': 'riscv_analysis/src/cfg/register_set.rs', 'item': 'impl RegisterSet :: fn is_empty'},
        {'file': 'riscv_analysis/src/cfg/register_set.rs', 'item': "impl Iterator for RegisterSetIter<'_> :: fn next"},
        {'file': 'riscv_analysis/src/cfg/register_set.rs', 'item': 'impl FromIterator<Register> for RegisterSet :: fn from_iter'},
        {'file': 'riscv_analysis/src/parser/register_has_register_set.rs', 'item': 'impl HasRegisterSets for Register'},
        {'file': 'riscv_analysis/src/cfg/ecall.rs', 'item': 'fn environment_in_outs'},
    ],
    'obligations': [
        ob('to_num.contract', REG + 'to_num_contract', ['C14', 'C19', 'C06'],
           'Register::to_num(r) is the architectural number of r and < 32 (function contract)', [['r', 'u8']]),
        ob('from_num.contract', REG + 'from_num_contract', ['C14', 'C19', 'C06'],
           'Register::from_num(n) is Ok(x_n) iff n < 32, Err otherwise (function contract, all 256 n)', [['n', 'u8']]),
        ob('num.roundtrip', REG + 'num_roundtrip', ['C14', 'C19'],
           'from_num(to_num(r)) == Ok(r) for all r; to_num(from_num(n)) == n for all n < 32', [['r', 'u8'], ['n', 'u8']]),
    ] + [
        ob('from_str.%s' % h, REG + 'from_str_%s' % h, ['C14'],
           'Register::from_str: %s' % what, [['k', 'usize']])
        for h, what in [('abi_q0', 'psABI names of x0-x7 denote the register with that number'),
                        ('abi_q1', 'psABI names of x8-x15 denote the register with that number'),
                        ('abi_q2', 'psABI names of x16-x23 denote the register with that number'),
                        ('abi_q3', 'psABI names of x24-x31 denote the register with that number'),
                        ('xn_lo', 'x0-x15 denote the register with that number'),
                        ('xn_hi', 'x16-x31 denote the register with that number'),
                        ('misc', '`fp` is x8; x32, s12, t7, a8 and the empty string are rejected')]
    ] + [
        ob('set.new', SET + 'new_contract', ['C14', 'C19'], 'RegisterSet::new() has the empty view (function contract)'),
        ob('set.from_register', SET + 'from_register_contract', ['C14', 'C19'],
           'from_register(r) has view {r}', [['r', 'u8']]),
        ob('set.contains', SET + 'contains_contract', ['C14', 'C19', 'C06'],
           'contains(s, r) <=> r in view(s); never panics (function contract)', [['s', 'u32'], ['r', 'u8']]),
        ob('set.is_empty', SET + 'is_empty_contract', ['C14', 'C19'], 'is_empty(s) <=> view(s) == {} (function contract)', [['s', 'u32']]),
        ob('set.set_register', SET + 'set_register_contract', ['C14', 'C19', 'C06'],
           'set_register changes the view to old + {r}, nothing else (whole view asserted; the struct has no other field)', [['s', 'u32'], ['r', 'u8']]),
        ob('set.unset_register', SET + 'unset_register_contract', ['C14', 'C19', 'C06'],
           'unset_register changes the view to old - {r}, nothing else (whole view asserted; the struct has no other field)', [['s', 'u32'], ['r', 'u8']]),
        ob('set.operators', SET + 'operators_whole_view', ['C14', 'C19', 'C06'],
           'the twelve operator impls (&, |, -, their assign forms, with set and register operands), Default and == are the '
           'set operations on the whole view', [['a', 'u32'], ['b', 'u32'], ['r', 'u8']]),
        ob('set.iter.step', SET + 'iter_next_step', ['C14', 'C19', 'C06'],
           'RegisterSetIter::next from any cursor: least member >= cursor or None; unwrap() cannot panic; loop bounded by 32 (unwinding assertion)',
           [['s', 'u32'], ['cur', 'u8']]),
        ob('set.iter.start', SET + 'iter_starts_at_zero', ['C14', 'C19'],
           'iter()/into_iter() start with cursor 0 on the set itself (with iter.step: by induction on the cursor the iteration '
           'yields exactly the members in ascending order, then None)', [['s', 'u32']]),
        dict(ob('set.iter.collect_vec', SET + 'iter_collect_vec_small', ['C14', 'C19', 'C06'],
                'collecting the iterator into a Vec yields exactly the members in ascending order without panicking (exercises next() with any size_hint)',
                [], timeout=600), kind='bounded', bound='four concrete sets: {x0}, {x31}, {x30, x31}, {x5, x17}'),
        ob('set.from_iter', SET + 'from_iter_union', ['C19'],
           'FromIterator builds the union of the listed registers (3 symbolic elements + empty list)', [['a', 'u8'], ['b', 'u8'], ['c', 'u8']]),
        ob('register.all', SET + 'all_is_full', ['C14'], 'Register::all() is the full set x0-x31'),
        ob('tables.psabi', TAB + 'tables_equal_psabi', ['C14', 'C04x'],
           'the twelve HasRegisterSets tables equal the psABI classes (t = x5-7,x28-31; s = x8,9,18-27; a = x10-17) and the derived '
           'identities caller = t+a, callee = s+sp+ra, caller & callee = {}'),
        ob('tables.uniform', TAB + 'tables_uniform_within_class', ['C14'],
           'every table contains all or none of the temporaries and all or none of the saved registers', [['k', 'usize']]),
        ob('ecall.a_only', ECL + 'ecall_table_only_names_a_registers', ['C14', 'C06'],
           'for every i32 call number environment_in_outs names only a0-a7 and never panics; exit calls 10/93 have no result', [['n', 'i32']]),
    ],
}

# unit `inst_k` — the mnemonic reported for an operation: From<&XType> for Inst and ParserNode::inst (Kani, loop-free over the full
# finite domain: complete). The expected value is not a second copy of the name table: the reported mnemonic is sent back through
# Type::from (mnemonic -> format and operation, proved against the manual in unit decode_q) and must give the operation it came from.
D = '#[cfg_attr(kani, derive(kani::Arbitrary))]'
H = 'parser::inst::verif_kani_inst::'
I = 'riscv_analysis/src/parser/inst.rs'

def ob(i, h, clause, inputs, props=('C08', 'C01', 'C06')):
    return {'id': 'inst_k.' + i, 'harness': H + h, 'props': list(props), 'kind': 'complete', 'clause': clause, 'timeout': 600,
            'tier': 'quick', 'inputs': inputs, 'replay': None, 'search': ['decode-search']}

FAM = [('arith', 'ArithType', 'R-type'), ('iarith', 'IArithType', 'I-type / U-type'), ('load', 'LoadType', 'load'), ('store', 'StoreType', 'store'),
       ('branch', 'BranchType', 'branch'), ('csr', 'CsrType', 'CSR register'), ('csri', 'CsrIType', 'CSR immediate'), ('basic', 'BasicType', 'system')]
UNIT = {
    'unit': 'inst_k', 'backend': 'kani', 'crate': 'riscv_analysis',
    'requires_units': ['ops', 'regs', 'genkill'],     # genkill derives kani::Arbitrary for ArithType, IArithType, StoreType, LoadType, BranchType; regs for Register
    'weave': [
        {'file': I, 'append': 'kani/inst_harness.rs',
         'attrs': [{'item': 'enum ' + e, 'lines': [D]} for e in ['CsrType', 'CsrIType', 'BasicType']]},
    ],
    'functions': [{'file': I, 'item': 'impl From<&%s> for Inst :: fn from' % t} for _, t, _ in FAM]
                 + [{'file': I, 'item': 'impl From<&JumpLinkType> for Inst :: fn from'}, {'file': I, 'item': 'impl From<&JumpLinkRType> for Inst :: fn from'},
                    {'file': 'riscv_analysis/src/parser/node.rs', 'item': 'impl ParserNode :: fn inst'}],
    'obligations': [ob('from.' + k, 'mnemonic_of_' + k, 'for every %s operation t: the mnemonic Inst::from(&t) is one that the mnemonic table maps back to t' % d, [['t', 'u8']])
                    for k, _, d in FAM]
                   + [ob('from.jumps', 'mnemonic_of_jumps', 'jal and jalr are reported under their own mnemonics', []),
                      ob('node.arith', 'node_inst_arith', 'ParserNode::inst of every R-type node means the node\'s operation', [['t', 'u8'], ['r', 'u8']]),
                      ob('node.iarith', 'node_inst_iarith', 'ParserNode::inst of every I-type / U-type node means the node\'s operation', [['t', 'u8'], ['r', 'u8'], ['imm', 'i32']]),
                      ob('node.load_store', 'node_inst_load_store', 'ParserNode::inst of every load and store node means the node\'s operation', [['l', 'u8'], ['s', 'u8'], ['r', 'u8']]),
                      ob('node.branch', 'node_inst_branch', 'ParserNode::inst of every branch node means the node\'s operation', [['b', 'u8'], ['r', 'u8']]),
                      ob('node.jal', 'node_inst_jal', 'ParserNode::inst of every jal node is jal', [['r', 'u8']]),
                      ob('node.jalr', 'node_inst_jalr', 'ParserNode::inst of every jalr node is jalr', [['r', 'u8'], ['imm', 'i32']]),
                      ob('node.system', 'node_inst_system', 'ParserNode::inst of every CSR, ecall/ebreak/uret and la node means the node\'s operation', [['c', 'u8'], ['ci', 'u8'], ['bt', 'u8'], ['r', 'u8']])],
}

"""Item lists shared by the Verus units that need the parser's node types (extracted verbatim)."""
P = 'riscv_analysis/src/parser/'

DERIVE_ENUM = ['#[derive(Clone, Copy, PartialEq, Eq, Structural)]']

SIMPLE_ENUMS = ['BasicType', 'ArithType', 'BranchType', 'IArithType', 'LoadType', 'StoreType', 'CsrType', 'CsrIType',
                'IgnoreType', 'JumpLinkType', 'JumpLinkRType', 'Inst', 'PseudoType']


def type_items():
    items = [
        {'file': P + 'position.rs', 'item': 'struct Position', 'attrs': 'drop', 'pre_lines': ['#[derive(Clone, Copy)]']},
        {'file': P + 'range.rs', 'item': 'struct Range', 'attrs': 'drop', 'pre_lines': ['#[derive(Clone)]']},
        {'file': P + 'token_type.rs', 'item': 'enum TokenType', 'attrs': 'drop', 'pre_lines': ['#[derive(Clone, Default)]']},
        {'file': P + 'rawtoken.rs', 'item': 'struct RawToken', 'attrs': 'drop', 'pre_lines': ['#[derive(Clone)]']},
        {'file': P + 'token.rs', 'item': 'struct Token', 'attrs': 'drop', 'pre_lines': ['#[derive(Clone)]']},
        {'file': P + 'register.rs', 'item': 'enum Register', 'attrs': 'drop', 'pre_lines': DERIVE_ENUM},
        {'file': P + 'imm.rs', 'item': 'struct Imm', 'attrs': 'drop'},            # Clone modelled in nodes_spec.rs
        {'file': P + 'imm.rs', 'item': 'struct CsrImm', 'attrs': 'drop', 'pre_lines': ['#[derive(Clone, Copy)]']},
        {'file': P + 'label.rs', 'item': 'struct LabelString', 'attrs': 'drop'},  # Clone modelled in nodes_spec.rs
        {'file': P + 'with.rs', 'item': 'struct With', 'attrs': 'drop', 'pre_lines': ['#[derive(Clone)]']},
        {'file': P + 'directive.rs', 'item': 'enum DirectiveToken', 'attrs': 'drop', 'pre_lines': DERIVE_ENUM},
        {'file': P + 'details.rs', 'item': 'enum DataType', 'attrs': 'drop', 'pre_lines': DERIVE_ENUM},
        {'file': P + 'details.rs', 'item': 'enum DirectiveType', 'attrs': 'drop', 'pre_lines': ['#[derive(Clone)]']},
    ]
    for e in SIMPLE_ENUMS:
        items.append({'file': P + 'inst.rs', 'item': 'enum ' + e, 'attrs': 'drop', 'pre_lines': DERIVE_ENUM})
    items.append({'file': P + 'inst.rs', 'item': 'enum Type', 'attrs': 'drop'})
    for s in ['Arith', 'IArith', 'Label', 'JumpLink', 'JumpLinkR', 'Basic', 'Branch', 'Load', 'Store', 'Directive', 'Csr', 'CsrI',
              'LoadAddr', 'FuncEntry', 'ProgramEntry']:
        # `#[serde(..)]` field attributes are dropped (serialization is not verified here)
        items.append({'file': P + 'details.rs', 'item': 'struct ' + s, 'attrs': 'drop', 'pre_lines': ['#[derive(Clone)]'],
                      'rewrites': [(r'[ \t]*#\[serde\([^\n]*\)\]\n', '')]})
    items.append({'file': P + 'node.rs', 'item': 'enum ParserNode', 'attrs': 'drop', 'pre_lines': ['#[derive(Clone)]']})
    return items

// ---- woven by /verif (unit U2 `regs`): RegisterSet against its abstract view ----
// Abstract view of a set: the 32-bit characteristic vector, bit i <=> register x_i is a member.
#[cfg(kani)]
pub(crate) mod verif_kani_regset {
    use super::{RegisterSet, RegisterSetIter};
    use crate::parser::Register;

    pub fn view(s: &RegisterSet) -> u32 { s.registers }
    pub fn bit(r: &Register) -> u32 { 1u32 << (*r as u8) }
    pub fn of_view(v: u32) -> RegisterSet { RegisterSet { registers: v } }

    fn any_set() -> RegisterSet { of_view(kani::any()) }

    #[kani::proof_for_contract(RegisterSet::new)]
    fn new_contract() { let _ = RegisterSet::new(); }

    /// from_register(r) has view {r}
    #[kani::proof]
    fn from_register_contract() {
        let r: Register = kani::any();
        assert!(view(&RegisterSet::from_register(r)) == bit(&r));
    }

    #[kani::proof_for_contract(RegisterSet::contains)]
    fn contains_contract() { let s = any_set(); let r: Register = kani::any(); let _ = s.contains(&r); }

    #[kani::proof_for_contract(RegisterSet::is_empty)]
    fn is_empty_contract() { let s = any_set(); let _ = s.is_empty(); }

    /// set_register / unset_register: the WHOLE view afterwards is old + {r} resp. old - {r}
    /// (the struct has no other field, so nothing else can change)
    #[kani::proof]
    fn set_register_contract() {
        let mut s = any_set(); let r: Register = kani::any(); let old = view(&s);
        s.set_register(&r);
        assert!(view(&s) == old | bit(&r));
    }

    #[kani::proof]
    fn unset_register_contract() {
        let mut s = any_set(); let r: Register = kani::any(); let old = view(&s);
        s.unset_register(&r);
        assert!(view(&s) == old & !bit(&r));
    }

    /// the eleven operator impls: result view is the corresponding set operation on the whole view
    #[kani::proof]
    fn operators_whole_view() {
        let (a, b) = (any_set(), any_set());
        let r: Register = kani::any();
        let (va, vb, vr) = (view(&a), view(&b), bit(&r));
        assert!(view(&(a & b)) == va & vb);
        assert!(view(&(a | b)) == va | vb);
        assert!(view(&(a - b)) == va & !vb);
        assert!(view(&(a & r)) == va & vr);
        assert!(view(&(a | r)) == va | vr);
        assert!(view(&(a - r)) == va & !vr);
        let mut c = a; c &= b; assert!(view(&c) == va & vb);
        let mut c = a; c |= b; assert!(view(&c) == va | vb);
        let mut c = a; c -= b; assert!(view(&c) == va & !vb);
        let mut c = a; c &= r; assert!(view(&c) == va & vr);
        let mut c = a; c |= r; assert!(view(&c) == va | vr);
        let mut c = a; c -= r; assert!(view(&c) == va & !vr);
        assert!(view(&RegisterSet::default()) == 0);
        assert!((a == b) == (va == vb));
    }

    /// One step of the iterator from any cursor position: it returns the least member with
    /// number >= cursor (and advances past it), or None when there is none; never panics.
    #[kani::proof]
    #[kani::unwind(34)]
    fn iter_next_step() {
        let s = any_set();
        let cur: u8 = kani::any();
        let mut it = RegisterSetIter { registers: &s, current: cur };
        let got = it.next();
        let v = view(&s);
        match got {
            Some(r) => {
                let n = r as u8;
                assert!(n >= cur && n < 32, "yielded register below the cursor");
                assert!(v & (1u32 << n) != 0, "yielded a non-member");
                // nothing between the old cursor and n is a member
                let below = if n == 0 { 0 } else { (1u32 << n) - 1 };
                let from_cur = if cur >= 32 { 0 } else { !((1u32 << cur) - 1) };
                assert!(v & below & from_cur == 0, "skipped a member");
                assert!(it.current == n + 1, "cursor not advanced past the yielded register");
            }
            None => {
                let from_cur = if cur >= 32 { 0 } else { !((1u32 << cur) - 1) };
                assert!(v & from_cur == 0, "stopped although members remain");
                assert!(it.current >= 32 || cur >= 32);
            }
        }
    }

    /// Start of an iteration: the cursor is 0 and the iterator refers to the set itself.
    #[kani::proof]
    fn iter_starts_at_zero() {
        let s = any_set();
        let it = (&s).into_iter();
        assert!(it.current == 0 && view(it.registers) == view(&s));
        let it2 = s.iter();
        assert!(it2.current == 0 && view(it2.registers) == view(&s));
    }

    /// Collecting the iterator into a Vec (what Serialize and the lints do; exercises next() together with any
    /// size_hint). BOUNDED: four concrete sets that put the cursor on every boundary ({x0}, {x31}, {x30, x31}, {x5, x17}):
    /// a symbolic pair of registers did not finish in 600 s (Vec growth under CBMC).
    #[kani::proof]
    #[kani::unwind(34)]
    fn iter_collect_vec_small() {
        let v: Vec<Register> = of_view(1).iter().collect();
        assert!(v.len() == 1 && v[0] == Register::X0);
        let v: Vec<Register> = of_view(1 << 31).iter().collect();
        assert!(v.len() == 1 && v[0] == Register::X31);
        let v: Vec<Register> = of_view(3 << 30).iter().collect();
        assert!(v.len() == 2 && v[0] == Register::X30 && v[1] == Register::X31);
        let v: Vec<Register> = of_view((1 << 5) | (1 << 17)).iter().collect();
        assert!(v.len() == 2 && v[0] == Register::X5 && v[1] == Register::X17);
    }

    /// FromIterator on an arbitrary sequence (length <= 3 here; the body is set_register, whose
    /// contract is proved for all inputs) yields the union of the singletons.
    #[kani::proof]
    #[kani::unwind(5)]
    fn from_iter_union() {
        let (a, b, c): (Register, Register, Register) = (kani::any(), kani::any(), kani::any());
        let s: RegisterSet = [a, b, c].into_iter().collect();
        assert!(view(&s) == bit(&a) | bit(&b) | bit(&c));
        let e: RegisterSet = [].into_iter().collect();
        assert!(view(&e) == 0);
    }

    /// Register::all() is the full set
    #[kani::proof]
    #[kani::unwind(34)]
    fn all_is_full() { assert!(view(&Register::all()) == u32::MAX); }
}

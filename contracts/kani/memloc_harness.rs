// ---- woven by /verif (unit `memloc`); compiled only under cfg(kani) ----
// C19: the hand-written string encoding of `MemoryLocation` is reloadable:
//      decode(encode(m)) == Ok(m), and neither side panics (C06).
// Injectivity of encode follows: encode(a) == encode(b) ==> a == decode(encode(a)) == decode(encode(b)) == b.
//
// The REAL `Serialize::serialize`, `Deserialize::deserialize` and `MemoryLocationVisitor::visit_str`
// are executed, including std's integer formatting and parsing (nothing is stubbed).
#[cfg(kani)]
mod verif_kani_memloc {
    use super::{MemoryLocation, MemoryLocationVisitor};
    use crate::parser::CsrImm;
    use serde::de::value::StrDeserializer;
    use serde::de::Visitor;
    use serde::ser::Impossible;
    use serde::{Deserialize, Serialize, Serializer};

    /// Error type of the capturing serializer / of the decoder: carries nothing, so that the
    /// (unreachable on a correct tree) error paths do not drag `to_string` into the model.
    #[derive(Debug)]
    pub struct E;
    impl core::fmt::Display for E {
        fn fmt(&self, f: &mut core::fmt::Formatter<'_>) -> core::fmt::Result { f.write_str("E") }
    }
    impl std::error::Error for E {}
    impl serde::ser::Error for E { fn custom<T: core::fmt::Display>(_: T) -> Self { E } }
    impl serde::de::Error for E { fn custom<T: core::fmt::Display>(_: T) -> Self { E } }

    /// A `Serializer` that records the string handed to `serialize_str`; every other entry point
    /// is an error (the encoding under contract is "one string").
    struct Capture;
    macro_rules! refuse { ($($f:ident($($t:ty),*);)*) => { $(fn $f(self $(, _: $t)*) -> Result<String, E> { Err(E) })* } }
    impl Serializer for Capture {
        type Ok = String;
        type Error = E;
        type SerializeSeq = Impossible<String, E>;
        type SerializeTuple = Impossible<String, E>;
        type SerializeTupleStruct = Impossible<String, E>;
        type SerializeTupleVariant = Impossible<String, E>;
        type SerializeMap = Impossible<String, E>;
        type SerializeStruct = Impossible<String, E>;
        type SerializeStructVariant = Impossible<String, E>;
        fn serialize_str(self, v: &str) -> Result<String, E> { Ok(String::from(v)) }
        refuse! {
            serialize_bool(bool); serialize_i8(i8); serialize_i16(i16); serialize_i32(i32); serialize_i64(i64);
            serialize_u8(u8); serialize_u16(u16); serialize_u32(u32); serialize_u64(u64);
            serialize_f32(f32); serialize_f64(f64); serialize_char(char); serialize_bytes(&[u8]);
            serialize_none(); serialize_unit(); serialize_unit_struct(&'static str);
            serialize_unit_variant(&'static str, u32, &'static str);
        }
        fn serialize_some<T: ?Sized + Serialize>(self, _: &T) -> Result<String, E> { Err(E) }
        fn serialize_newtype_struct<T: ?Sized + Serialize>(self, _: &'static str, _: &T) -> Result<String, E> { Err(E) }
        fn serialize_newtype_variant<T: ?Sized + Serialize>(self, _: &'static str, _: u32, _: &'static str, _: &T) -> Result<String, E> { Err(E) }
        fn serialize_seq(self, _: Option<usize>) -> Result<Self::SerializeSeq, E> { Err(E) }
        fn serialize_tuple(self, _: usize) -> Result<Self::SerializeTuple, E> { Err(E) }
        fn serialize_tuple_struct(self, _: &'static str, _: usize) -> Result<Self::SerializeTupleStruct, E> { Err(E) }
        fn serialize_tuple_variant(self, _: &'static str, _: u32, _: &'static str, _: usize) -> Result<Self::SerializeTupleVariant, E> { Err(E) }
        fn serialize_map(self, _: Option<usize>) -> Result<Self::SerializeMap, E> { Err(E) }
        fn serialize_struct(self, _: &'static str, _: usize) -> Result<Self::SerializeStruct, E> { Err(E) }
        fn serialize_struct_variant(self, _: &'static str, _: u32, _: &'static str, _: usize) -> Result<Self::SerializeStructVariant, E> { Err(E) }
    }

    /// encode with the real `Serialize` impl
    fn encode(m: &MemoryLocation) -> String {
        match m.serialize(Capture) {
            Ok(s) => s,
            Err(E) => panic!("MemoryLocation::serialize did not produce a string"),
        }
    }

    /// decode with the real `Deserialize` impl (-> `deserialize_str` -> `MemoryLocationVisitor::visit_str`)
    fn decode(s: &str) -> Result<MemoryLocation, E> {
        MemoryLocation::deserialize(StrDeserializer::<E>::new(s))
    }

    /// THE obligation: decode(encode(m)) == Ok(m); any panic inside either side fails the harness.
    fn roundtrip(m: MemoryLocation) {
        let s = encode(&m);
        // the visitor called directly (what a self-describing format such as YAML/JSON ends up calling) ...
        match MemoryLocationVisitor.visit_str::<E>(&s) {
            Ok(back) => assert!(back == m, "visit_str(encode(m)) is a different memory location"),
            Err(E) => panic!("visit_str rejects the emitted encoding"),
        }
        // ... and through the public Deserialize impl
        match decode(&s) {
            Ok(back) => assert!(back == m, "decode(encode(m)) is a different memory location"),
            Err(E) => panic!("the emitted encoding cannot be loaded"),
        }
    }

    fn so(i: i32) -> MemoryLocation { MemoryLocation::StackOffset(i) }
    fn csr(c: u32) -> MemoryLocation { MemoryLocation::CsrRegister(CsrImm::new(c)) }
    fn csro(c: u32, i: i32) -> MemoryLocation { MemoryLocation::CsrRegisterValueOffset(CsrImm::new(c), i) }

    // ------------------------------------------------------------------ StackOffset
    /// bounded: offset symbolic in -9..=9
    #[kani::proof]
    #[kani::unwind(8)]
    fn so_small() {
        let i: i32 = kani::any();
        kani::assume(i >= -9 && i <= 9);
        kani::cover!(i < 0, "negative stack offset");
        kani::cover!(i == 0, "zero stack offset");
        kani::cover!(i > 0, "positive stack offset");
        roundtrip(so(i));
    }

    /// bounded: offset symbolic in -128..=127 (two and three digit numbers, both signs)
    #[kani::proof]
    #[kani::unwind(10)]
    fn so_byte() {
        let i: i8 = kani::any();
        kani::cover!(i <= -100, "three digits, negative");
        kani::cover!(i >= 100, "three digits, positive");
        kani::cover!(i > -100 && i <= -10, "two digits, negative");
        roundtrip(so(i as i32));
    }

    // boundary values, concrete (bound = exactly this value)
    #[kani::proof] #[kani::unwind(16)] fn so_min() { roundtrip(so(i32::MIN)); }
    #[kani::proof] #[kani::unwind(16)] fn so_min_plus_1() { roundtrip(so(i32::MIN + 1)); }
    #[kani::proof] #[kani::unwind(16)] fn so_minus_1() { roundtrip(so(-1)); }
    #[kani::proof] #[kani::unwind(16)] fn so_zero() { roundtrip(so(0)); }
    #[kani::proof] #[kani::unwind(16)] fn so_max() { roundtrip(so(i32::MAX)); }

    // ------------------------------------------------------------------ CsrRegister
    /// bounded: csr symbolic in 0..=9
    #[kani::proof]
    #[kani::unwind(8)]
    fn csr_small() {
        let c: u32 = kani::any();
        kani::assume(c <= 9);
        kani::cover!(c == 0, "csr 0");
        kani::cover!(c == 9, "csr 9");
        roundtrip(csr(c));
    }

    /// bounded: csr symbolic in 0..=255
    #[kani::proof]
    #[kani::unwind(10)]
    fn csr_byte() {
        let c: u8 = kani::any();
        kani::cover!(c >= 100, "three digits");
        kani::cover!(c >= 10 && c < 100, "two digits");
        roundtrip(csr(c as u32));
    }

    #[kani::proof] #[kani::unwind(16)] fn csr_zero() { roundtrip(csr(0)); }
    /// 0xFFF is the largest architectural CSR number
    #[kani::proof] #[kani::unwind(16)] fn csr_4095() { roundtrip(csr(4095)); }
    #[kani::proof] #[kani::unwind(16)] fn csr_max() { roundtrip(csr(u32::MAX)); }

    // ------------------------------------------------------------------ CsrRegisterValueOffset
    /// bounded: csr symbolic in 0..=9, offset symbolic in -9..=9
    #[kani::proof]
    #[kani::unwind(8)]
    fn csro_small() {
        let c: u32 = kani::any();
        let i: i32 = kani::any();
        kani::assume(c <= 9);
        kani::assume(i >= -9 && i <= 9);
        kani::cover!(i < 0 && c > 0, "negative offset");
        kani::cover!(i > 0 && c > 0, "positive offset");
        kani::cover!(i == 0 && c == 0, "all zero");
        roundtrip(csro(c, i));
    }

    #[kani::proof] #[kani::unwind(16)] fn csro_zero_min() { roundtrip(csro(0, i32::MIN)); }
    #[kani::proof] #[kani::unwind(16)] fn csro_max_min() { roundtrip(csro(u32::MAX, i32::MIN)); }
    #[kani::proof] #[kani::unwind(16)] fn csro_max_max() { roundtrip(csro(u32::MAX, i32::MAX)); }
    #[kani::proof] #[kani::unwind(16)] fn csro_4095_minus_1() { roundtrip(csro(4095, -1)); }
    /// csr and offset must not be swapped: distinct one-digit payloads
    #[kani::proof] #[kani::unwind(16)] fn csro_7_3() { roundtrip(csro(7, 3)); }

    // ------------------------------------------------------------------ across variants
    /// The three variants with equal payloads have pairwise different encodings and each reloads
    /// as its own variant (bounded: payload symbolic in 0..=9).
    #[kani::proof]
    #[kani::unwind(8)]
    fn variants_distinct_small() {
        let c: u32 = kani::any();
        kani::assume(c <= 9);
        let (a, b, d) = (so(c as i32), csr(c), csro(c, c as i32));
        let (ea, eb, ed) = (encode(&a), encode(&b), encode(&d));
        assert!(ea != eb && ea != ed && eb != ed, "two different memory locations share an encoding");
        kani::cover!(c == 5);
    }
}

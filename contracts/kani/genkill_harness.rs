// ---- woven by /verif (unit `genkill`): facts generated and killed per instruction (gen_kill.rs) ----
#[cfg(kani)]
mod verif_kani_genkill {
    use super::*;
    use crate::cfg::{verif_kani_regset::view, MathOp};
    use crate::cfg::verif_spec_ops::{isa_alu, rv32};
    use crate::parser::{Arith, ArithType, Branch, BranchType, IArith, IArithType, Imm, Inst, JumpLink, JumpLinkType,
                        LabelString, Load, LoadType, RawToken, Store, StoreType, Token, With};
    use uuid::Uuid;

    fn w<T>(x: T) -> With<T> { With::new(x, Token::default()) }
    fn any_reg() -> Register { kani::any() }

    /// RV32IM result of an R-type instruction (the RV64 `w` forms restricted to 32-bit values behave like their base form)
    fn exec_arith(t: ArithType, a: i32, b: i32) -> i32 {
        let base = match t {
            ArithType::Addw => ArithType::Add, ArithType::Sllw => ArithType::Sll, ArithType::Sraw => ArithType::Sra,
            ArithType::Srlw => ArithType::Srl, other => other,
        };
        match isa_alu(Inst::from(&base)) { Some(op) => rv32(&op, a, b), None => unreachable!() }
    }
    /// result of an I-type ALU instruction; None when it is not a function of (rs1, imm) alone (auipc adds the pc)
    fn exec_iarith(t: IArithType, a: i32, imm: i32) -> Option<i32> {
        let base = match t {
            IArithType::Addiw => IArithType::Addi, IArithType::Slliw => IArithType::Slli, IArithType::Sraiw => IArithType::Srai,
            IArithType::Srliw => IArithType::Srli, other => other,
        };
        match base {
            IArithType::Lui => Some(imm),          // the node stores the already shifted operand
            IArithType::Auipc => None,
            _ => isa_alu(Inst::from(&base)).map(|op| rv32(&op, a, imm)),
        }
    }

    /// gen_reg_value on R-type nodes: a claimed constant is the value the machine computes, for every register file
    #[kani::proof]
    fn gen_reg_value_arith_sound() {
        let (t, rd, rs1, rs2): (ArithType, Register, Register, Register) = (kani::any(), any_reg(), any_reg(), any_reg());
        let (mut va, mut vb): (i32, i32) = (kani::any(), kani::any());
        if rs1 == Register::X0 { va = 0; }
        if rs2 == Register::X0 { vb = 0; }
        if rs1 == rs2 { vb = va; }
        let node = ParserNode::Arith(Arith { inst: w(t), rd: w(rd), rs1: w(rs1), rs2: w(rs2), key: Uuid::nil(), token: RawToken::default() });
        kani::cover!(node.gen_reg_value().is_some());
        if let Some((r, v)) = node.gen_reg_value() {
            assert!(r == rd && r != Register::X0, "fact attached to a register the instruction does not write");
            match v {
                AvailableValue::Constant(c) => assert!(c == exec_arith(t, va, vb), "claimed constant differs from the RV32IM result"),
                _ => panic!("R-type instructions generate constants only"),
            }
        }
    }

    /// gen_reg_value on I-type nodes
    #[kani::proof]
    fn gen_reg_value_iarith_sound() {
        let (t, rd, rs1): (IArithType, Register, Register) = (kani::any(), any_reg(), any_reg());
        let imm: i32 = kani::any();
        let mut va: i32 = kani::any();
        if rs1 == Register::X0 { va = 0; }
        let node = ParserNode::IArith(IArith { inst: w(t), rd: w(rd), rs1: w(rs1), imm: w(Imm::new(imm)), key: Uuid::nil(), token: RawToken::default() });
        kani::cover!(node.gen_reg_value().is_some());
        if let Some((r, v)) = node.gen_reg_value() {
            assert!(r == rd && r != Register::X0, "fact attached to a register the instruction does not write");
            match v {
                AvailableValue::Constant(c) => match exec_iarith(t, va, imm) {
                    Some(x) => assert!(c == x, "claimed constant differs from the RV32IM result"),
                    None => panic!("constant claimed for an instruction whose result depends on the pc"),
                },
                _ => panic!("I-type instructions generate constants only"),
            }
        }
    }

    /// gen_memory_value on stores: a stack-slot fact "slot sp+imm holds the current value of rs2" is generated only by a
    /// full-word store through sp, with exactly that offset and that register
    #[kani::proof]
    fn gen_memory_value_store_sound() {
        let (t, rs1, rs2): (StoreType, Register, Register) = (kani::any(), any_reg(), any_reg());
        let imm: i32 = kani::any();
        let node = ParserNode::Store(Store { inst: w(t), rs1: w(rs1), rs2: w(rs2), imm: w(Imm::new(imm)), key: Uuid::nil(), token: RawToken::default() });
        kani::cover!(node.gen_memory_value().is_some());
        match node.gen_memory_value() {
            Some((MemoryLocation::StackOffset(o), AvailableValue::RegisterWithScalar(r, k))) => {
                assert!(rs1 == Register::X2, "stack fact from a store that does not go through sp");
                assert!(o == imm && r == rs2 && k == 0, "stack fact names another slot or register");
                assert!(matches!(t, StoreType::Sw), "a byte/half store does not make the 32-bit slot equal to the register");
            }
            Some(_) => panic!("a store generates stack-slot facts only"),
            None => {}
        }
        assert!(node.gen_reg_value().is_none(), "a store writes no register");
    }

    const T: u32 = (0b111 << 5) | (0b1111 << 28);
    const A: u32 = 0b1111_1111 << 10;

    /// kill_reg: exactly the written register (minus x0) ...
    #[kani::proof]
    #[kani::unwind(34)]
    fn kill_reg_arith() {
        let (t, rd, rs1, rs2): (ArithType, Register, Register, Register) = (kani::any(), any_reg(), any_reg(), any_reg());
        let arith = ParserNode::Arith(Arith { inst: w(t), rd: w(rd), rs1: w(rs1), rs2: w(rs2), key: Uuid::nil(), token: RawToken::default() });
        assert!(view(&arith.kill_reg()) == (1u32 << (rd as u8)) & !1, "kill set of an ALU instruction is not {rd} - {x0}");
    }
    #[kani::proof]
    #[kani::unwind(34)]
    fn kill_reg_load() {
        let (lt, rd, rs1): (LoadType, Register, Register) = (kani::any(), any_reg(), any_reg());
        let ld = ParserNode::Load(Load { inst: w(lt), rd: w(rd), rs1: w(rs1), imm: w(Imm::new(kani::any())), key: Uuid::nil(), token: RawToken::default() });
        assert!(view(&ld.kill_reg()) == (1u32 << (rd as u8)) & !1, "kill set of a load is not {rd} - {x0}");
    }
    /// ... nothing for stores and branches ...
    #[kani::proof]
    #[kani::unwind(34)]
    fn kill_reg_store() {
        let (st, rs1, rs2): (StoreType, Register, Register) = (kani::any(), any_reg(), any_reg());
        let store = ParserNode::Store(Store { inst: w(st), rs1: w(rs1), rs2: w(rs2), imm: w(Imm::new(kani::any())), key: Uuid::nil(), token: RawToken::default() });
        assert!(view(&store.kill_reg()) == 0, "a store kills no register");
    }
    #[kani::proof]
    #[kani::unwind(34)]
    fn kill_reg_branch() {
        let (bt, rs1, rs2): (BranchType, Register, Register) = (kani::any(), any_reg(), any_reg());
        let br = ParserNode::Branch(Branch { inst: w(bt), rs1: w(rs1), rs2: w(rs2), name: w(LabelString::new("L")), key: Uuid::nil(), token: RawToken::default() });
        assert!(view(&br.kill_reg()) == 0, "a branch kills no register");
    }
    /// ... and the caller-saved registers at a call
    #[kani::proof]
    #[kani::unwind(34)]
    fn kill_reg_jal() {
        let rd = any_reg();
        let jl = ParserNode::JumpLink(JumpLink { inst: w(JumpLinkType::Jal), rd: w(rd), name: w(LabelString::new("L")), key: Uuid::nil(), token: RawToken::default() });
        if rd == Register::X1 {
            assert!(view(&jl.kill_reg()) == T | A, "a call must kill exactly the caller-saved registers");
        } else {
            assert!(view(&jl.kill_reg()) == (1u32 << (rd as u8)) & !1, "a plain jump-and-link kills only its link register");
        }
    }
}

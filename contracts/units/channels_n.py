# unit `channels_n` — bounded native stand-in for the main clause of C18 (the CLI binary: clap, file I/O, println!, serde_json, and the
# library entry point RVParser::run over the whole pipeline: out of reach of Verus and Kani). Builds `rva` from the tree under
# check (offline, into /verif/.cache/rva-target) and runs it. Never counted as proved.
UNIT = {
    'unit': 'channels_n', 'backend': 'native',
    'functions': [{'file': 'riscv_analysis_cli/src/printer.rs', 'item': 'impl PrettyPrint :: fn format_item'},
                  {'file': 'riscv_analysis_cli/src/printer.rs', 'item': 'impl PrettyPrint :: fn format_item_compact'},
                  {'file': 'riscv_analysis_cli/src/printer.rs', 'item': 'impl JSONPrint :: fn wrap_item'},
                  {'file': 'riscv_analysis/src/parser/parsing.rs', 'item': 'impl RVParser<T> :: fn run'}],
    'obligations': [
        {'id': 'channels_n.agree', 'recipe': ['channels-search'], 'props': ['C18'], 'kind': 'bounded', 'timeout': 1200,
         'bound': '23 inputs (clean; an include name beyond the basic multilingual plane quoted in a title; 51 diagnostics spread over three files; a file that includes itself, a cycle of two files, undefined labels in two files - each run must end within 20 s; three undefined labels; a label token where an immediate is expected; lints of several kinds; parse errors; a CFG error followed by parse errors; two diagnostics on one range; titles with '
                  'a backslash and with a quote; tabs; CR/LF; multi-byte characters in comments; diagnostics on lines 10 and 100; two include layouts with '
                  'diagnostics in both files; a missing include; unreachable code, stack and ecall diagnostics) x 6 channel settings',
         'clause': '--json, --compact and the pretty printer (each with and without --all-files) and RVParser::run report the same diagnostics - severity, '
                   'title, file, line, columns - in the same order within each file, sorted by position; the JSON is valid and of the documented shape; '
                   'titles are non-empty and a kind of diagnostic has one severity; without --all-files the text printers say how many diagnostics are in other files; each excerpt shows the referred line with aligned gutters and the '
                   'marker under the reported columns',
         'tier': 'quick'},
    ],
}

import re
# U4 `lexer` — cursor functions of the hand-written lexer and Position/Range (Verus, unbounded in the text length)
LEX = 'riscv_analysis/src/parser/lexer.rs'
POS = 'riscv_analysis/src/parser/position.rs'
RNG = 'riscv_analysis/src/parser/range.rs'
TOK = 'riscv_analysis/src/parser/token.rs'
TTY = 'riscv_analysis/src/parser/token_type.rs'
RAW = 'riscv_analysis/src/parser/rawtoken.rs'
ERR = 'riscv_analysis/src/parser/error.rs'

def lexfn(name, **kw):
    d = {'file': LEX, 'item': 'impl Lexer :: fn ' + name, 'wrap': 'impl Lexer', 'fn': name, 'attrs': 'drop'}
    d.update(kw)
    return d

UNIT = {
    'unit': 'lexer',
    'backend': 'verus',
    'uses': ['use vstd::std_specs::ops::AddSpec;'],
    'prelude': ['verus/lexer_spec.rs'],
    'items': [
        {'file': POS, 'item': 'struct Position', 'attrs': 'drop', 'pre_lines': ['#[derive(Clone, Copy)]']},
        {'file': POS, 'item': 'impl Position :: fn new', 'wrap': 'impl Position', 'fn': 'Position::new', 'attrs': 'drop', 'ret': 'r',
         'ensures': [('post', 'r.s_line() == line && r.s_column() == column && r.s_raw() == raw_index')]},
        {'file': RNG, 'item': 'struct Range', 'attrs': 'drop'},   # Clone: see lexer_spec.rs (model of the derive)
        {'file': RNG, 'item': 'impl Range :: fn new', 'wrap': 'impl Range', 'fn': 'Range::new', 'attrs': 'drop', 'ret': 'r',
         'ensures': [('post', 'r.s_start() == start && r.s_end() == end')]},
        {'file': LEX, 'item': 'struct Lexer', 'attrs': 'drop'},
        lexfn('peek', ret='r',
              requires=[(None, 'wf(*self)'), (None, 'n <= 8')],
              ensures=[('post', 'r == (if self.pos + n < self.source.len() { Some(self.source@[self.pos + n]) } else { None::<char> })')]),
        lexfn('current', ret='r',
              requires=[(None, 'wf(*self)')],
              ensures=[('post', 'r == (if self.pos < self.source.len() { Some(self.source@[self.pos as int]) } else { None::<char> })')]),
        lexfn('consume_char',
              requires=[(None, 'wf(*old(self))')],
              ensures=[('wf', 'wf(*final(self))'),
                       ('frame', 'same_text(*old(self), *final(self))'),
                       ('step', 'final(self).pos == (if old(self).pos < old(self).source.len() { old(self).pos + 1 } else { old(self).pos as int })')],
              body_start=['proof { lemma_coords_bounds(self.source@, self.pos as int); }']),
        lexfn('is_ws', ret='r', ensures=[('post', 'r == spec_is_ws(ch)')]),
        lexfn('skip_ws',
              requires=[(None, 'wf(*old(self))')],
              ensures=[('wf', 'wf(*final(self))'),
                       ('frame', 'same_text(*old(self), *final(self))'),
                       ('blanks', 'old(self).pos <= final(self).pos && forall|i: int| old(self).pos <= i < final(self).pos ==> spec_is_ws(#[trigger] old(self).source@[i])'),
                       ('stops', 'final(self).pos == final(self).source.len() || !spec_is_ws(final(self).source@[final(self).pos as int])')],
              loops={0: {'invariant': [('wf', 'wf(*self)'), ('frame', 'same_text(*old(self), *self)'),
                                       ('blanks', 'old(self).pos <= self.pos && forall|i: int| old(self).pos <= i < self.pos ==> spec_is_ws(#[trigger] old(self).source@[i])')],
                         'ensures': [('stops', 'self.pos == self.source.len() || !spec_is_ws(self.source@[self.pos as int])')],
                         'decreases': 'self.source.len() - self.pos'}}),
        lexfn('skip_line',
              requires=[(None, 'wf(*old(self))')],
              ensures=[('wf', 'wf(*final(self))'),
                       ('frame', 'same_text(*old(self), *final(self))'),
                       ('oneline', "old(self).pos <= final(self).pos && forall|i: int| old(self).pos <= i < final(self).pos ==> #[trigger] old(self).source@[i] != '\\n'"),
                       ('stops', "final(self).pos == final(self).source.len() || final(self).source@[final(self).pos as int] == '\\n'")],
              loops={0: {'invariant': [('wf', 'wf(*self)'), ('frame', 'same_text(*old(self), *self)'),
                                       ('oneline', "old(self).pos <= self.pos && forall|i: int| old(self).pos <= i < self.pos ==> #[trigger] old(self).source@[i] != '\\n'")],
                         'ensures': [('stops', "self.pos == self.source.len() || self.source@[self.pos as int] == '\\n'")],
                         'decreases': 'self.source.len() - self.pos'}}),
        lexfn('get_pos', ret='r',
              requires=[(None, 'wf(*self)')],
              ensures=[('consistent', 'consistent(self.source@, r) && r.raw_index == self.pos')]),
        lexfn('get_range', ret='r',
              requires=[(None, 'wf(*self)')],
              ensures=[('consistent', 'consistent(self.source@, r.start) && r.start.raw_index == self.pos && r.end == r.start')]),
        # ---- wave 2: token construction and Lexer::next ----
        {'file': LEX, 'item': 'enum StringLexErrorType', 'attrs': 'drop', 'pre_lines': ['#[derive(Clone, PartialEq)]']},
        {'file': LEX, 'item': 'struct StringLexError', 'attrs': 'drop', 'pre_lines': ['#[derive(Clone)]']},
        {'file': LEX, 'item': 'impl StringLexError :: fn new', 'wrap': 'impl StringLexError', 'fn': 'StringLexError::new', 'attrs': 'drop', 'ret': 'r',
         'ensures': [('post', 'r.s_pos() == pos && r.s_kind() == kind')]},
        {'file': TTY, 'item': 'enum TokenType', 'attrs': 'drop', 'pre_lines': ['#[derive(Clone, Default)]']},
        {'file': RAW, 'item': 'struct RawToken', 'attrs': 'drop', 'pre_lines': ['#[derive(Clone)]']},
        {'file': RAW, 'item': 'impl RawToken :: fn new', 'wrap': 'impl RawToken', 'fn': 'RawToken::new', 'attrs': 'drop', 'ret': 'r',
         'ensures': [('post', 'r.s_pos() == pos && r.s_file() == file')]},
        {'file': TOK, 'item': 'struct Token', 'attrs': 'drop', 'pre_lines': ['#[derive(Clone)]']},
        {'file': TOK, 'item': 'impl Token :: fn new', 'wrap': 'impl Token', 'fn': 'Token::new', 'attrs': 'drop', 'ret': 'r',
         'ensures': [('post', 'r.s_type() == token && r.s_raw().s_pos() == pos && r.s_raw().s_file() == file')]},
        {'file': ERR, 'item': 'enum LexError', 'attrs': 'drop', 'pre_lines': ['#[derive(Clone)]']},
        {'file': RAW, 'item': 'impl DiagnosticLocation for RawToken :: fn range', 'wrap': 'impl RawToken', 'fn': 'RawToken::range', 'attrs': 'drop', 'ret': 'r',
         'ensures': [('post', 'r == self.s_pos()')],
         'rewrites': [(r'super::Range', 'Range', 1)]},
        {'file': TOK, 'item': 'impl DiagnosticLocation for Token :: fn range', 'wrap': 'impl Token', 'fn': 'Token::range', 'attrs': 'drop', 'ret': 'r',
         'ensures': [('post', 'r == self.s_raw().s_pos()')],
         'rewrites': [(r'super::Range', 'Range', 1)]},
        {'file': RNG, 'item': 'impl Range :: fn start', 'wrap': 'impl Range', 'fn': 'Range::start', 'attrs': 'drop', 'ret': 'r', 'ensures': [('post', '*r == self.s_start()')]},
        {'file': RNG, 'item': 'impl Range :: fn end', 'wrap': 'impl Range', 'fn': 'Range::end', 'attrs': 'drop', 'ret': 'r', 'ensures': [('post', '*r == self.s_end()')]},
        {'file': POS, 'item': 'impl Position :: fn zero_idx_line', 'wrap': 'impl Position', 'fn': 'Position::zero_idx_line', 'attrs': 'drop', 'ret': 'r', 'ensures': [('post', 'r == self.s_line()')]},
        {'file': POS, 'item': 'impl Position :: fn zero_idx_column', 'wrap': 'impl Position', 'fn': 'Position::zero_idx_column', 'attrs': 'drop', 'ret': 'r', 'ensures': [('post', 'r == self.s_column()')]},
        lexfn('is_symbol_char', ret='r', ensures=[('post', 'r == spec_is_symbol_char(ch)')]),
        lexfn('is_symbol_item', ret='r', ensures=[('post', 'r == spec_is_symbol_item(ch)')]),
        lexfn('skip_char',
              requires=[(None, 'wf(*old(self))'), (None, 'n <= 8')],
              ensures=[('wf', 'wf(*final(self))'), ('frame', 'same_text(*old(self), *final(self))'),
                       ('step', 'final(self).pos == (if old(self).pos + n <= old(self).source.len() { old(self).pos + n } else { old(self).source.len() as int })')],
              # R5: the ghost iterator of the for loop is given a name (insertion inside the header)
              rewrites=[('lit', 'for _ in 0..n', 'for _ in iter: 0..n', 1)],
              loops={0: {'invariant': [('wf', 'wf(*self)'), ('frame', 'same_text(*old(self), *self)'),
                                       ('step', 'self.pos == (if old(self).pos + iter.index@ <= old(self).source.len() { old(self).pos + iter.index@ } else { old(self).source.len() as int })')]}}),
        lexfn('unicode_code', ret='r',
              requires=[(None, 'wf(*old(self))')],
              ensures=[('wf', 'wf(*final(self))'), ('frame', 'same_text(*old(self), *final(self))'),
                       ('none', 'r is None ==> final(self).pos == old(self).pos'),
                       ('some', 'r is Some ==> old(self).pos + 5 < old(self).source.len() && final(self).pos == old(self).pos + 4 && no_nl(old(self).source@, old(self).pos + 2, old(self).pos + 6)'),
                       ('value', 'r is Some ==> (forall|k: int| 0 <= k < 4 ==> spec_is_hex(#[trigger] old(self).source@[old(self).pos + 2 + k])) '
                                 '&& (r->0) as int == hex_prefix(old(self).source@.subrange(old(self).pos + 2, old(self).pos + 6), 4)')],
              rewrites=[('lit', 'for c in chars', 'for c in it: chars', 1)],   # R5: name the ghost iterator
              loops={0: {'invariant': [
                  ('acc', '(it.index@ == 0 ==> acc == 0) && (it.index@ == 1 ==> acc < 0x10) && (it.index@ == 2 ==> acc < 0x100) && (it.index@ == 3 ==> acc < 0x1000) && (it.index@ == 4 ==> acc < 0x1_0000) && it.index@ <= 4'),
                  ('wf', 'wf(*self) && *self == *old(self) && self.pos + 5 < self.source.len()'),
                  ('digits', 'it.seq().len() == 4 && (forall|k: int| 0 <= k < 4 ==> #[trigger] it.seq()[k] == self.source@[self.pos + 2 + k]) && (forall|j: int| 0 <= j < it.index@ ==> spec_is_hex(#[trigger] it.seq()[j]))'),
                  ('value', 'acc as int == hex_prefix(it.seq(), it.index@ as int)')]}}),
        lexfn('escape_code', ret='r',
              requires=[(None, 'wf(*old(self))')],
              ensures=[('wf', 'wf(*final(self))'), ('frame', 'same_text(*old(self), *final(self))'),
                       ('none', 'r is None ==> final(self).pos == old(self).pos'),
                       ('some', 'r is Some ==> old(self).pos < final(self).pos < old(self).source.len() && no_nl(old(self).source@, old(self).pos + 1, final(self).pos + 1)')],
              rewrites=[(r'\breal\b', 'real_ch', 2)]),  # `real` is a Verus prelude type name
        lexfn('acc_string', ret='r',
              requires=[(None, 'wf(*old(self))')],
              ensures=[('wf', 'wf(*final(self))'), ('frame', 'same_text(*old(self), *final(self))'),
                       ('oneline', 'old(self).pos <= final(self).pos && no_nl(old(self).source@, old(self).pos as int, final(self).pos as int)'),
                       ('ok', "r is Ok ==> final(self).pos < final(self).source.len() && final(self).source@[final(self).pos as int] == '\"'"),
                       ('err', "r is Err ==> consistent(final(self).source@, (r->Err_0).s_pos()) && (r->Err_0).s_pos().s_raw() == final(self).pos")],
              loops={0: {'invariant': [('wf', 'wf(*self)'), ('frame', 'same_text(*old(self), *self)'),
                                       ('oneline', 'old(self).pos <= self.pos && no_nl(old(self).source@, old(self).pos as int, self.pos as int)')],
                         'decreases': 'self.source.len() - self.pos'}}),
        lexfn('invalid_string', ret='r',
              ensures=[('post', 'is_invalid_string(r, start, end, self.source_id)')]),
        {'file': LEX, 'item': 'impl Iterator for Lexer :: fn next', 'wrap': 'impl Lexer', 'fn': 'next', 'attrs': 'drop', 'ret': 'r',
         'requires': [(None, 'wf(*old(self))')],
         'body_start': ['proof { axiom_string_add(); }'],
         'anchors': [{'at': '// TODO: remove these debug asserts once we fix the get_pos() function', 'where': 'after',
                      'lines': ['proof { lemma_same_line(self.source@, t.s_raw().s_pos().s_start().s_raw() as int, t.s_raw().s_pos().s_end().s_raw() as int); }']}],
         'ensures': [('wf', 'wf(*final(self))'), ('frame', 'same_text(*old(self), *final(self))'),
                     ('post', 'next_post(old(self).source@, old(self).pos as int, final(self).pos as int, r, old(self).source_id)'),
                     ('progress', 'old(self).pos < old(self).source.len() ==> final(self).pos > old(self).pos')],
         'loops': {
             0: {'invariant': [('wf', 'wf(*self)'), ('frame', 'same_text(*old(self), *self)'),
                               ('shape', "start.s_raw() <= self.pos < self.source.len() && self.source@[start.s_raw() as int] == '.' && no_nl(self.source@, start.s_raw() as int, self.pos + 1)")],
                 'invariant_except_break': [('acc', 'dir_str@ == self.source@.subrange(start.s_raw() as int, self.pos as int)')],
                 'ensures': [('acc', 'dir_str@ == self.source@.subrange(start.s_raw() as int, self.pos + 1)')],
                 'decreases': 'self.source.len() - self.pos'},
             1: {'invariant': [('wf', 'wf(*self)'), ('frame', 'same_text(*old(self), *self)'),
                               ('shape', "start.s_raw() <= self.pos < self.source.len() && self.source@[start.s_raw() as int] == '#' && no_nl(self.source@, start.s_raw() as int, self.pos + 1)")],
                 'invariant_except_break': [('acc', 'comment_str@ == self.source@.subrange(start.s_raw() as int, self.pos as int)')],
                 'ensures': [('acc', 'comment_str@ == self.source@.subrange(start.s_raw() as int, self.pos + 1)')],
                 'decreases': 'self.source.len() - self.pos'},
             2: {'invariant': [('wf', 'wf(*self)'), ('frame', 'same_text(*old(self), *self)'),
                               ('shape', "start.s_raw() <= self.pos < self.source.len() && no_nl(self.source@, start.s_raw() as int, self.pos + 1)")],
                 'invariant_except_break': [('acc', 'symbol_str@ == self.source@.subrange(start.s_raw() as int, self.pos as int)')],
                 'ensures': [('acc', 'symbol_str@ == self.source@.subrange(start.s_raw() as int, self.pos + 1)')],
                 'decreases': 'self.source.len() - self.pos'},
         },
         # R2: the method is checked as an inherent method (Verus rejects requires on trait impls);
         # Self::Item is spelled out from the impl's own `type Item = ...;` line
         'requires_text': ['impl Iterator for Lexer {', 'type Item = Result<Token, LexError>;'],
         # R1: infix `+` on String operands crashes Verus (codegen_select_candidate); the explicit
         # trait-call form is what the operator desugars to (Rust reference, operator expressions)
         'rewrites': [(r'Self::Item', 'Result<Token, LexError>', 1),
                      ('lit', r'''"\"".to_string() + &string_str + "\""''',
                       r'''core::ops::Add::add(core::ops::Add::add("\"".to_string(), string_str.as_str()), "\"")''', 1),
                      ('lit', r"""'\''.to_string() + &c.to_string() + """ + '"' + "'" + '"',
                       r"""core::ops::Add::add(core::ops::Add::add('\''.to_string(), c.to_string().as_str()), """ + '"' + "'" + '")', 1),
                      ('lit', 'symbol_str.clone() + ":"', 'core::ops::Add::add(symbol_str.clone(), ":")', 1),
                      # R6: see verif_split_after_hash in lexer_spec.rs
                      ('lit', 'comment_str.split_at(1)', 'verif_split_after_hash(&comment_str)', 1),
                      # R4: debug assertions (unsupported macros) become calls to a function that can never be
                      # called (requires false): "the debug assertion cannot fire" is then a proof obligation
                      (r'debug_assert_eq!\(\s*(t\.range\(\)\.start\(\)\.zero_idx_line\(\)),\s*(t\.range\(\)\.end\(\)\.zero_idx_line\(\))\s*\);',
                       r'if !(\1 == \2) { verif_debug_assert_failed(); }', 1),
                      (r'debug_assert!\(\s*(t\.range\(\)\.start\(\)\.zero_idx_column\(\) <= t\.range\(\)\.end\(\)\.zero_idx_column\(\))\s*\);',
                       r'if !(\1) { verif_debug_assert_failed(); }', 1)]},
    ],
    'canaries': [{'name': 'wf', 'params': 'lx: Lexer', 'requires': 'wf(lx)'}],
    'functions': [],
    'obligations': [],
}

def _mk():
    props = {
        'Position::new': ['C09'], 'Range::new': ['C09'], 'peek': ['C09', 'C06'], 'current': ['C09', 'C06'],
        'consume_char': ['C09', 'C07', 'C06'], 'is_ws': ['C07'], 'skip_ws': ['C07', 'C09', 'C06'],
        'skip_line': ['C07', 'C09', 'C06'], 'get_pos': ['C09'], 'get_range': ['C09'],
        'StringLexError::new': ['C09'], 'RawToken::new': ['C09'], 'Token::new': ['C09'], 'skip_char': ['C07', 'C06'],
        # character literals are one of the four notations of C17
        'unicode_code': ['C07', 'C06', 'C17'], 'escape_code': ['C07', 'C06', 'C17'], 'acc_string': ['C07', 'C09', 'C06', 'C17'],
        'invalid_string': ['C09'], 'next': ['C07', 'C09', 'C06', 'C17'],
        'RawToken::range': ['C09'], 'Token::range': ['C09'], 'Range::start': ['C09'], 'Range::end': ['C09'],
        'Position::zero_idx_line': ['C09'], 'Position::zero_idx_column': ['C09'],
        'is_symbol_char': ['C07'], 'is_symbol_item': ['C07'],
    }
    text = {
        'progress': 'a call on unread text consumes at least one character (what makes the parse loop and error recovery terminate)',
        'ok': 'on success the cursor rests on the closing quote', 'err': 'on failure the error position is the consistent position of the cursor',
        'digits': 'the four characters after \\u are exactly the ones inspected and all accepted ones are hex digits',
        'shape': 'the accumulated token lies on one line inside the text', 'acc': 'the accumulated string equals the source characters of the token',
        'none': 'on failure the cursor is not moved', 'some': 'on success exactly the four hex digits are skipped, none of them a newline',
        'acc': 'the accumulated code point stays below 2^16 (no overflow of acc * 16 + d)',
        'post': 'returns exactly what its specification says (for next: end of stream only at the end of the text after blanks; '
                'an Ok token covers exactly the consumed non-blank characters, its start/end are consistent positions on one line inside the file '
                'and delimit exactly its text; an Err is located on the offending text on one line)', 'wf': 'the cursor invariant wf (row/col/pos name the same character) is preserved',
        'frame': 'the source text and file id are unchanged', 'step': 'pos advances by exactly one character and saturates at the end of the text',
        'blanks': 'only blanks are skipped', 'stops': 'the loop stops exactly at the first character it must not skip (or at the end of the text)',
        'oneline': 'no newline is skipped', 'consistent': 'the returned position is consistent: (line, column, raw offset) designate the same character of the text',
    }
    # Lexer::next is verified against the contracts of every other function of the unit, so each of them carries
    # both token-level properties (C07 coverage, C09 locations)
    for k in list(props):
        props[k] = sorted(set(props[k]) | {'C07', 'C09'})
    for it in UNIT['items']:
        if 'fn' not in it:
            continue
        fn = it['fn']
        UNIT['functions'].append({'file': it['file'], 'item': it['item']})
        for label, _ in it.get('ensures', []):
            UNIT['obligations'].append({'id': 'lexer.%s.%s' % (fn, label), 'fn': fn, 'label': label, 'props': props[fn], 'kind': 'proof',
                                        'clause': '%s: %s (for every source text of every length)' % (fn, text.get(label, label)),
                                        'search': ['lexer-search']})
        UNIT['obligations'].append({'id': 'lexer.%s.safe' % fn, 'fn': fn, 'label': 'safe', 'props': sorted(set(props[fn] + ['C06'])), 'kind': 'proof',
                                    'clause': '%s: no arithmetic overflow, no out-of-range index, callee preconditions hold, every loop terminates (decreases)' % fn,
                                    'search': ['lexer-search']})
_mk()

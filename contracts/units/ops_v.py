# U1 (Verus half) — MathOp::operate over mathematical integers.
# Decides the value clause for rem/remu (where SAT cannot prove uniqueness of division)
# and re-proves add/sub/slt/sltu/div/divu independently of Kani.
UNIT = {
    'unit': 'ops_v',
    'backend': 'verus',
    'prelude': ['verus/ops_spec.rs'],
    'uses': ['use vstd::std_specs::convert::FromSpec;'],
    'items': [
        {'file': 'riscv_analysis/src/cfg/ops.rs', 'item': 'enum MathOp', 'attrs': 'drop'},
        {'file': 'riscv_analysis/src/cfg/ops.rs', 'item': 'impl MathOp :: fn operate', 'wrap': 'impl MathOp',
         'fn': 'operate', 'ret': 'r', 'attrs': 'keep',
         # one clause per operator: the single clause over all eight was unstable under other SMT seeds
         'ensures': [('post.%s' % o.lower(), '*self is %s ==> r as int == rv32_int(*self, x as int, y as int)' % o)
                     for o in ['Add', 'Sub', 'Slt', 'Sltu', 'Div', 'Divu', 'Rem', 'Remu']],
         'body_start': ['proof {',
                        '    lemma_casts(); axiom_from_std(); lemma_div_rem_minus_one(x as int);',
                        '    lemma_mul_bounds(x as int, y as int);',
                        '    lemma_mul_bounds(x as int, to_u32(y as int));',
                        '    lemma_umul_bounds(to_u32(x as int), to_u32(y as int));',
                        '}'],
         },
    ],
    'functions': [{'file': 'riscv_analysis/src/cfg/ops.rs', 'item': 'impl MathOp :: fn operate'}],
    'obligations': [
    ] + [
        {'id': 'ops_v.operate.post.%s' % o, 'fn': 'operate', 'label': 'post.%s' % o,
         'props': ['C08', 'C01'], 'kind': 'proof',
         'clause': 'operate(%s, x, y) == rv32_int(%s, x, y) over mathematical integers%s' % (o, o, ' (the only discharge of the exact value)' if o in ('rem', 'remu') else ''),
         'search': ['ops-search']}
        for o in ['add', 'sub', 'slt', 'sltu', 'div', 'divu', 'rem', 'remu']
    ] + [
        {'id': 'ops_v.operate.safe', 'fn': 'operate', 'label': 'safe',
         'props': ['C08', 'C06'], 'kind': 'proof',
         'clause': 'no arithmetic overflow, no division by zero, callee preconditions hold in every arm of operate',
         'search': ['ops-search']},
    ],
}

# unit `excerpt` -- PrettyPrint::format_region renders the referred line with the marker under the reported columns
# (C18, source-excerpt clause) and does not panic (C06).  Kani, bounded: concrete instances only.
#
# Contract (from the property), for one-line `text`, first_non_ws <= start <= end <= chars(text):
#   three '\n'-terminated lines "{spc} |", " {line+1} | {text.trim()}", "{spc} | {blanks}{carets}" with exactly
#   end-start+1 carets and nothing after them, preceded by exactly start-first_non_ws blanks (the line's own tabs and printing blanks, so
#   tabs keep their width; a carriage return is not copied) -- i.e. the marker starts under character `start` of the shown line.
# Tool limit (measured, CBMC 6.11, 300 s each): symbolic text of 2-3 characters: no verdict; symbolic columns or line
# number: CBMC crashes (SIGSEGV) in `<[u8]>::repeat` with a symbolic count, and gives no verdict with `str::repeat`
# modelled.  One concrete instance takes 40-90 s.
# No native replay: format_region is a private associated fn of the bin crate `rva`; a failing instance is a constant
# harness, its input is spelled out in 'bound'.
MOD = 'printer::verif_kani_excerpt::'

INSTANCES = [
    ('c_plain', r'text "  add x", line 6, columns 2..=4'),
    ('c_tab_two_digit_line', r'text "\ta\tb ", line 9 (shown as 10), columns 3..=3'),
    ('c_first_column', r'text "ret", line 0, columns 0..=0'),
    ('c_whole_line', r'text " li a0", line 41, columns 1..=5'),
    ('c_nbsp_between', r'text "a\u{a0}b", line 0, columns 2..=2'),
    ('c_ideographic_indent', r'text "\u{3000}ab", line 0, columns 2..=2'),
    ('c_ideographic_shift', r'text "a\u{3000}  b", line 0, columns 4..=4'),
    ('c_crlf_newline_token', r'text "\tadd\r" (a line of a CR/LF file), line 3, columns 5..=5 (the line terminator)'),
]

UNIT = {
    'unit': 'excerpt',
    'backend': 'kani',
    'crate': 'riscv_analysis_cli',
    'weave': [
        {'file': 'riscv_analysis_cli/src/printer.rs', 'append': 'kani/excerpt_harness.rs'},
    ],
    'functions': [
        {'file': 'riscv_analysis_cli/src/printer.rs', 'item': 'impl PrettyPrint :: fn format_region'},
    ],
    'obligations': [
        {'id': 'excerpt.' + h,
         'harness': MOD + h,
         'props': ['C18', 'C06'],
         'kind': 'bounded',
         'bound': 'exactly the input ' + what,
         'clause': ('format_region on %s does not panic and returns exactly the three lines of the contract: gutter, '
                    '" {line+1} | {text.trim()}", and the marker line with start-first_non_ws blanks followed by '
                    'end-start+1 carets and nothing else' % what),
         'timeout': 300,
         'tier': 'quick',
         'inputs': [],
         'replay': None}
        for h, what in INSTANCES
    ],
}

"""Kani route (DESIGN §2.2): weave contracts + harness modules into a scratch
copy of /repo's working tree (insertion only, identity-checked), run
`cargo kani`, parse per-harness verdicts, fetch counterexamples."""
import fcntl
import os
import re
import subprocess
import time

from . import rustscan
from .common import (CACHE, CONTRACTS, Infra, REPO, log, new_scratch, offline_env,
                     read, rm_scratch, sha256, write)

WEAVE_TAG = '/*verif-woven*/'


def copy_repo(dst):
    r = subprocess.run(['rsync', '-a', '--delete', '--exclude', '/target', '--exclude', '.git',
                        REPO.rstrip('/') + '/', dst.rstrip('/') + '/'], capture_output=True, text=True)
    if r.returncode != 0:
        raise Infra('rsync failed: ' + r.stderr[-400:])


def weave_file(scratch, entry):
    """entry: {file, attrs:[{item, lines}], append: path-under-contracts | None}
    Returns dict with info for evidence. Insertion-only."""
    path = os.path.join(scratch, entry['file'])
    orig = read(os.path.join(REPO, entry['file']))
    msk = rustscan.mask(orig)
    inserts = []  # (offset, text)
    for a in entry.get('attrs', []):
        it = rustscan.find_item(orig, a['item'], msk)
        indent = re.match(r'[ \t]*', orig[it.sig:]).group(0)
        text = ''.join('%s%s %s\n' % (indent, l, WEAVE_TAG) for l in a['lines'])
        inserts.append((it.sig, text))
    for a in entry.get('crate_attrs', []):
        inserts.append((0, '%s %s\n' % (a, WEAVE_TAG)))
    # several attribute groups on the same item: keep one line each
    seen = set()
    inserts = [x for x in inserts if not (x in seen or seen.add(x))]
    inserts.sort()
    out, last = [], 0
    for off, text in inserts:
        out.append(orig[last:off])
        out.append(text)
        last = off
    out.append(orig[last:])
    woven = ''.join(out)
    appended = ''
    apps = entry.get('appends') or ([entry['append']] if entry.get('append') else [])
    if apps:
        appended = '\n// ==== verif-append-begin ====\n' + '\n'.join(read(os.path.join(CONTRACTS, a)) for a in apps)
        woven += appended
    # identity check: strip what was woven, compare with the original
    stripped = woven
    if appended:
        stripped = stripped[:stripped.index('\n// ==== verif-append-begin ====\n')]
    stripped = ''.join(l for l in stripped.splitlines(keepends=True) if WEAVE_TAG not in l)
    if stripped != orig:
        raise Infra('identity check failed for %s' % entry['file'])
    write(path, woven)
    return {'file': entry['file'], 'sha256_original': sha256(orig),
            'inserted_lines': sum(t.count('\n') for _, t in inserts),
            'appended': ', '.join(apps) if apps else None}


_THREAD_CHECKING = re.compile(r'^Thread (\d+): Checking harness (\S+?)\.\.\.$')
_THREAD_BLOCK = re.compile(r'^Thread (\d+): ?$')
_PLAIN_CHECKING = re.compile(r'^Checking harness (\S+?)\.\.\.$')


def parse_kani_output(text):
    """-> {harness_full_name: {status, failed_checks:[{desc, loc}], time_s, summary}}"""
    res = {}
    cur_by_thread = {}
    cur = None
    lines = text.splitlines()
    i = 0
    pending_failed = None
    while i < len(lines):
        l = lines[i]
        m = _THREAD_CHECKING.match(l)
        if m:
            cur_by_thread[m.group(1)] = m.group(2)
            res.setdefault(m.group(2), {'status': 'STARTED', 'failed_checks': [], 'time_s': None, 'summary': ''})
            i += 1
            continue
        m = _PLAIN_CHECKING.match(l)
        if m:
            cur = m.group(1)
            res.setdefault(cur, {'status': 'STARTED', 'failed_checks': [], 'time_s': None, 'summary': ''})
            i += 1
            continue
        m = _THREAD_BLOCK.match(l)
        if m:
            cur = cur_by_thread.get(m.group(1))
            i += 1
            continue
        if cur is not None and cur in res:
            r = res[cur]
            if l.startswith(' ** '):
                r['summary'] = l.strip()
            elif l.startswith('Failed Checks:'):
                desc = l[len('Failed Checks:'):].strip()
                loc = ''
                if i + 1 < len(lines) and lines[i + 1].lstrip().startswith('File:'):
                    loc = lines[i + 1].strip()
                r['failed_checks'].append({'desc': desc, 'loc': loc})
            elif l.startswith('VERIFICATION:- '):
                r['status'] = l[len('VERIFICATION:- '):].strip().split()[0]
            elif l.startswith('Verification Time:'):
                try:
                    r['time_s'] = float(l.split(':')[1].strip().rstrip('s'))
                except ValueError:
                    pass
            elif 'CBMC timed out' in l or 'out of memory' in l.lower() or 'CBMC failed' in l:
                r['status'] = 'TIMEOUT'
            elif l.startswith('Stub:') or l.strip().startswith('- Stub:'):
                r.setdefault('stubs', []).append(l.strip())
            elif 'unwinding assertion' in l and 'FAIL' in l:
                r.setdefault('notes', []).append(l.strip())
        i += 1
    return res


class KaniSession:
    """One scratch copy, many units woven in, one build."""

    def __init__(self, tag):
        self.scratch = new_scratch('kani-' + tag)
        self.src = os.path.join(self.scratch, 'src')
        os.makedirs(self.src)
        copy_repo(self.src)
        self.weaves = []
        os.makedirs(CACHE, exist_ok=True)
        self.target_dir = os.path.join(CACHE, 'kani-target')

    def weave(self, unit):
        """accumulate the unit's weave entries per file (several units may annotate the same file)"""
        if not hasattr(self, 'pending'):
            self.pending = {}
        # validate the anchors now so that a lost anchor is attributed to this unit
        for entry in unit.get('weave', []):
            orig = read(os.path.join(REPO, entry['file']))
            msk = rustscan.mask(orig)
            for a in entry.get('attrs', []):
                rustscan.find_item(orig, a['item'], msk)
        for entry in unit.get('weave', []):
            p = self.pending.setdefault(entry['file'], {'file': entry['file'], 'attrs': [], 'appends': [], 'crate_attrs': []})
            p['attrs'] += entry.get('attrs', [])
            p['crate_attrs'] += entry.get('crate_attrs', [])
            if entry.get('append') and entry['append'] not in p['appends']:
                p['appends'].append(entry['append'])

    def flush(self):
        self.weaves = [weave_file(self.src, e) for e in getattr(self, 'pending', {}).values()]

    def close(self):
        rm_scratch(self.scratch)

    def _cargo_kani(self, crate_dir, args, timeout):
        cmd = ['cargo', 'kani', '--target-dir', self.target_dir,
               '-Z', 'function-contracts', '-Z', 'stubbing', '-Z', 'unstable-options'] + args
        t0 = time.time()
        lockf = open(os.path.join(CACHE, 'kani.lock'), 'w')
        fcntl.flock(lockf, fcntl.LOCK_EX)
        try:
            p = subprocess.run(cmd, cwd=os.path.join(self.src, crate_dir), env=offline_env(),
                               capture_output=True, text=True, timeout=timeout)
            out = p.stdout + '\n' + p.stderr
            rc = p.returncode
        except subprocess.TimeoutExpired as e:
            out = ((e.stdout or b'').decode('utf-8', 'replace') if isinstance(e.stdout, bytes) else (e.stdout or '')) + \
                  '\n[verif] cargo kani wall-clock timeout after %ds\n' % timeout
            rc = -9
        finally:
            fcntl.flock(lockf, fcntl.LOCK_UN)
            lockf.close()
        return rc, out, time.time() - t0, ' '.join(cmd)

    def run(self, crate_dir, harnesses, per_harness_timeout, jobs=16, wall_timeout=None):
        """harnesses: list of fully-qualified harness names"""
        self.flush()
        args = ['--exact', '-j', str(jobs), '--output-format', 'terse',
                '--harness-timeout', '%ds' % per_harness_timeout]
        for h in harnesses:
            args += ['--harness', h]
        wall = wall_timeout or (per_harness_timeout * (1 + len(harnesses) // jobs) + 600)
        rc, out, dt, cmd = self._cargo_kani(crate_dir, args, wall)
        parsed = parse_kani_output(out)
        compile_failed = ('error: could not compile' in out or 'error[E' in out) and not parsed
        if compile_failed or (not parsed and rc != 0):
            raise Infra('cargo kani did not run any harness (rc=%s):\n%s' % (rc, out[-3000:]))
        for h in harnesses:
            if h not in parsed:
                parsed[h] = {'status': 'NOT_RUN', 'failed_checks': [], 'time_s': None, 'summary': ''}
            elif parsed[h]['status'] == 'STARTED':
                parsed[h]['status'] = 'TIMEOUT'
        return parsed, out, dt, cmd

    def playback(self, crate_dir, harnesses, timeout=600, jobs=16):
        """re-run failing harnesses asking for concrete values; -> {harness: [ {bytes, comment} ] | None}"""
        args = ['--exact', '-Z', 'concrete-playback', '--concrete-playback=print',
                '--output-format', 'terse', '--harness-timeout', '%ds' % timeout]
        for h in harnesses:
            args += ['--harness', h]
        rc, out, dt, cmd = self._cargo_kani(crate_dir, args, timeout + 600)
        res = {h: None for h in harnesses}
        for m in re.finditer(r'Concrete playback unit test for `([^`]+)`:\s*```(.*?)```', out, re.S):
            h, body = m.group(1), m.group(2)
            if h not in res:
                continue
            # several tests may be printed (one per failed check / cover); prefer a failed check
            tests = re.split(r'(?=/// Test generated for harness)', body)
            tests = [t for t in tests if 'concrete_vals' in t]
            tests.sort(key=lambda t: 1 if 'Check for `cover`' in t else 0)
            if not tests or res[h] is not None:
                continue
            t = tests[0]
            mm = re.search(r'concrete_vals:\s*Vec<Vec<u8>>\s*=\s*vec!\[(.*?)\];', t, re.S)
            if not mm:
                continue
            vals = []
            for v in re.finditer(r'(?://\s*(.*?)\n\s*)?vec!\[([0-9,\s]*)\]', mm.group(1)):
                bs = [int(b) for b in v.group(2).replace('\n', ' ').split(',') if b.strip()]
                vals.append({'bytes': bs, 'comment': (v.group(1) or '').strip()})
            res[h] = vals
        return res, out


def decode_inputs(vals, inputs):
    """inputs: [[name, type]], types: i8..i64,u8..u64,bool,char,usize"""
    out = {}
    if vals is None:
        return None
    k = 0
    for name, ty in inputs:
        if k >= len(vals):
            return None
        bs = vals[k]['bytes']
        k += 1
        v = int.from_bytes(bytes(bs), 'little', signed=False)
        if ty.startswith('i'):
            bits = 8 * len(bs)
            if v >= 1 << (bits - 1):
                v -= 1 << bits
        elif ty == 'bool':
            v = bool(v)
        out[name] = v
    return out

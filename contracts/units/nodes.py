# U5a `nodes` — architectural def/use and control predicates of ParserNode (Verus, unbounded)
import os, sys
sys.path.insert(0, os.path.dirname(os.path.abspath(__file__)))
from lib import nodetypes, mk

P = 'riscv_analysis/src/parser/'
NIP = P + 'node_instruction_properties.rs'

ENUMS = ['Register', 'DirectiveToken', 'DataType'] + nodetypes.SIMPLE_ENUMS
STRUCT_EQ = '// derive(PartialEq) on a field-less enum is structural equality (trusted statement about the derive)\n' + ''.join(
    'impl PartialEqSpecImpl for %s {\n    open spec fn obeys_eq_spec() -> bool { true }\n    open spec fn eq_spec(&self, other: &%s) -> bool { *self == *other }\n}\n' % (e, e)
    for e in ENUMS)

def nfn(name, **kw):
    d = {'file': NIP, 'item': 'impl InstructionProperties for ParserNode :: fn ' + name, 'wrap': 'impl ParserNode', 'fn': name, 'attrs': 'drop'}
    d.update(kw)
    return d

items = [i for i in nodetypes.type_items() if i['item'] != 'struct With']
items += [
    {'file': P + 'with.rs', 'item': 'struct With', 'attrs': 'drop'},   # Clone: modelled in nodes_spec.rs
    {'file': P + 'with.rs', 'item': 'impl With<T> :: fn get', 'wrap': 'impl<T> With<T>', 'fn': 'With::get', 'attrs': 'drop', 'ret': 'r',
     'ensures': [('post', '*r == self.sdata()')]},
    {'file': P + 'with.rs', 'item': 'impl With<T> :: fn get_cloned', 'wrap': 'impl<T> With<T>', 'fn': 'With::get_cloned', 'attrs': 'drop', 'ret': 'r',
     'ensures': [('post', 'cloned(self.sdata(), r)')]},
    {'file': P + 'with.rs', 'item': 'impl PartialEq<T> for With<T> :: fn eq', 'wrap': 'impl<T> PartialEq<T> for With<T> where T: PartialEq<T>', 'fn': 'With::eq', 'attrs': 'drop'},
    {'file': P + 'imm.rs', 'item': 'impl Imm :: fn value', 'wrap': 'impl Imm', 'fn': 'Imm::value', 'attrs': 'drop', 'ret': 'r',
     'ensures': [('post', 'r == self.sval()')]},
    nfn('is_return', ret='r', ensures=[('post', 'r == arch_is_return(*self)')]),
    nfn('is_ureturn', ret='r', ensures=[('post', 'r == (self matches ParserNode::Basic(x) && x.inst.sdata() == BasicType::Uret)')]),
    nfn('is_ecall', ret='r', ensures=[('post', 'r == (self matches ParserNode::Basic(x) && x.inst.sdata() == BasicType::Ecall)')]),
    nfn('calls_to', ret='r',
        ensures=[('post', 'match r { Some(l) => (self matches ParserNode::JumpLink(x) && x.rd.sdata() == Register::X1 && l.sdata() == x.name.sdata()), '
                          'None => !(self matches ParserNode::JumpLink(x) && x.rd.sdata() == Register::X1) }')]),
    nfn('jumps_to', ret='r',
        ensures=[('post', 'match r { Some(l) => (self matches ParserNode::JumpLink(x) && x.rd.sdata() != Register::X1 && l.sdata() == x.name.sdata()) '
                          '|| (self matches ParserNode::Branch(b) && l.sdata() == b.name.sdata()), '
                          'None => !(self matches ParserNode::JumpLink(x) && x.rd.sdata() != Register::X1) && !(self is Branch) }')]),
    nfn('is_unconditional_jump', ret='r', ensures=[('sound', 'r ==> never_falls_through(*self)')]),
    nfn('writes_to', ret='r',
        ensures=[('post', 'match r { Some(w) => arch_writes(*self) == Some(w.sdata()), None => arch_writes(*self) is None }')]),
    nfn('stores_to_memory', ret='r',
        ensures=[('post', 'match r { Some((v, (base, off))) => self matches ParserNode::Store(x) && x.rs2.sdata() != Register::X0 && v == x.rs2.sdata() && base == x.rs1.sdata() && off == x.imm.sdata(), '
                          'None => !(self matches ParserNode::Store(x) && x.rs2.sdata() != Register::X0) }')]),
    nfn('reads_from_memory', ret='r',
        ensures=[('post', 'match r { Some(((base, off), d)) => self matches ParserNode::Load(x) && d == x.rd.sdata() && base == x.rs1.sdata() && off == x.imm.sdata(), '
                          'None => !(self is Load) }')]),
    nfn('uses_memory_location', ret='r',
        ensures=[('post', 'match r { Some((base, off)) => (self matches ParserNode::Store(x) && base == x.rs1.sdata() && off == x.imm.sdata()) || (self matches ParserNode::Load(y) && base == y.rs1.sdata() && off == y.imm.sdata()), '
                          'None => !(self is Store) && !(self is Load) }')]),
    nfn('reads_from', ret='r',
        # the final `.collect()` into a HashSet (custom Hash on With<Register>) is outside Verus; the obligation is stated on
        # the vector it is built from and the collect call is replaced by an opaque wrapper (rewrite R7, trusted: collect()
        # of a Vec into a HashSet yields the set of its elements)
        rewrites=[('lit', 'vector.into_iter().collect()', 'verif_collect_register_set(vector)', 1)],
        anchors=[{'at': 'vector.into_iter().collect()', 'where': 'before', 'label': 'arch',
                  'lines': ['assert(regs_of(vector@) =~= arch_reads(*self));']}]),
]

UNIT = {
    'unit': 'nodes',
    'backend': 'verus',
    'uses': ['use vstd::std_specs::cmp::{PartialEqSpec, PartialEqSpecImpl};', 'use std::collections::HashSet;'],
    'prelude': ['verus/nodes_spec.rs'],
    'prelude_inline': [STRUCT_EQ],
    'items': items,
    'functions': [],
    'obligations': [],
}

PROPS = {f: ['C08'] for f in ['is_return', 'is_ureturn', 'is_ecall', 'calls_to', 'jumps_to', 'is_unconditional_jump', 'writes_to',
                              'stores_to_memory', 'reads_from_memory', 'uses_memory_location', 'reads_from',
                              'With::get', 'With::get_cloned', 'With::eq', 'Imm::value']}
TEXTS = {
    ('writes_to', 'post'): 'the register said to be written is exactly the architectural destination rd (none for stores, branches, ecall/ebreak/uret, labels, directives)',
    ('reads_from', 'arch'): 'the registers said to be read are exactly the architectural sources in operand order (rs1, rs2 / base and value / none)',
    ('is_return', 'post'): 'true exactly for `jalr x0, 0(ra)` and `uret`',
    ('is_unconditional_jump', 'sound'): 'when it answers true no execution falls through: jal/jalr that do not link into ra, or a branch comparing x0 with x0 under a relation that holds for (0, 0)',
    ('calls_to', 'post'): 'Some(label) exactly for jal ra, label',
    ('jumps_to', 'post'): 'Some(label) exactly for branches and for jal that does not link into ra',
    'post': 'returns exactly what its specification says',
}
mk.make(UNIT, PROPS, TEXTS, search=['nodes-search'])

// ---- woven by /verif (unit `tags`): the variant tags of AvailableValue in the dump are pairwise different ----
#[cfg(kani)]
mod verif_kani_tags {
    use super::AvailableValue;
    use crate::parser::{CsrImm, LabelString, Register, Token, With};
    use serde::ser::{Impossible, Serialize, SerializeTupleVariant, Serializer};

    /// what the derived Serialize impl hands to the serializer for an enum value: the variant's tag
    struct Tag;
    #[derive(Debug)]
    struct NoErr;
    impl std::fmt::Display for NoErr { fn fmt(&self, _: &mut std::fmt::Formatter<'_>) -> std::fmt::Result { Ok(()) } }
    impl std::error::Error for NoErr {}
    impl serde::ser::Error for NoErr { fn custom<T: std::fmt::Display>(_: T) -> Self { NoErr } }
    struct TupleTag(&'static str);
    impl SerializeTupleVariant for TupleTag {
        type Ok = &'static str;
        type Error = NoErr;
        fn serialize_field<T: ?Sized + Serialize>(&mut self, _: &T) -> Result<(), NoErr> { Ok(()) }
        fn end(self) -> Result<&'static str, NoErr> { Ok(self.0) }
    }
    macro_rules! no { ($($f:ident($($t:ty),*)),*) => { $(fn $f(self, $(_: $t),*) -> Result<&'static str, NoErr> { Err(NoErr) })* } }
    impl Serializer for Tag {
        type Ok = &'static str;
        type Error = NoErr;
        type SerializeSeq = Impossible<&'static str, NoErr>;
        type SerializeTuple = Impossible<&'static str, NoErr>;
        type SerializeTupleStruct = Impossible<&'static str, NoErr>;
        type SerializeTupleVariant = TupleTag;
        type SerializeMap = Impossible<&'static str, NoErr>;
        type SerializeStruct = Impossible<&'static str, NoErr>;
        type SerializeStructVariant = Impossible<&'static str, NoErr>;
        no!(serialize_bool(bool), serialize_i8(i8), serialize_i16(i16), serialize_i32(i32), serialize_i64(i64), serialize_u8(u8),
            serialize_u16(u16), serialize_u32(u32), serialize_u64(u64), serialize_f32(f32), serialize_f64(f64), serialize_char(char),
            serialize_str(&str), serialize_bytes(&[u8]), serialize_none(), serialize_unit(), serialize_unit_struct(&'static str));
        fn serialize_some<T: ?Sized + Serialize>(self, _: &T) -> Result<&'static str, NoErr> { Err(NoErr) }
        fn serialize_unit_variant(self, _: &'static str, _: u32, variant: &'static str) -> Result<&'static str, NoErr> { Ok(variant) }
        fn serialize_newtype_struct<T: ?Sized + Serialize>(self, _: &'static str, _: &T) -> Result<&'static str, NoErr> { Err(NoErr) }
        fn serialize_newtype_variant<T: ?Sized + Serialize>(self, _: &'static str, _: u32, variant: &'static str, _: &T) -> Result<&'static str, NoErr> { Ok(variant) }
        fn serialize_seq(self, _: Option<usize>) -> Result<Self::SerializeSeq, NoErr> { Err(NoErr) }
        fn serialize_tuple(self, _: usize) -> Result<Self::SerializeTuple, NoErr> { Err(NoErr) }
        fn serialize_tuple_struct(self, _: &'static str, _: usize) -> Result<Self::SerializeTupleStruct, NoErr> { Err(NoErr) }
        fn serialize_tuple_variant(self, _: &'static str, _: u32, variant: &'static str, _: usize) -> Result<TupleTag, NoErr> { Ok(TupleTag(variant)) }
        fn serialize_map(self, _: Option<usize>) -> Result<Self::SerializeMap, NoErr> { Err(NoErr) }
        fn serialize_struct(self, _: &'static str, _: usize) -> Result<Self::SerializeStruct, NoErr> { Err(NoErr) }
        fn serialize_struct_variant(self, _: &'static str, _: u32, _: &'static str, _: usize) -> Result<Self::SerializeStructVariant, NoErr> { Err(NoErr) }
    }
    fn tag(v: &AvailableValue) -> &'static str { match v.serialize(Tag) { Ok(t) => t, Err(_) => panic!("AvailableValue is not serialized as an enum variant") } }

    /// Two values of different kinds never get the same tag (so the dump distinguishes them and reloads the right kind).
    /// Finite: one value per variant; the exhaustive `match` below fails to compile when a variant is added.
    #[kani::proof]
    #[kani::unwind(12)]
    fn tags_pairwise_distinct() {
        let l = || LabelString::new("L");
        let vals = [
            AvailableValue::Constant(1), AvailableValue::Address(With::new(l(), Token::default())), AvailableValue::Memory(l(), 1),
            AvailableValue::RegisterWithScalar(Register::X5, 1), AvailableValue::OriginalRegisterWithScalar(Register::X5, 1),
            AvailableValue::MemoryAtRegister(Register::X5, 1), AvailableValue::MemoryAtOriginalRegister(Register::X5, 1),
            AvailableValue::ValueInCsr(CsrImm::new(1)), AvailableValue::MemoryAtCsr(CsrImm::new(1), 1),
        ];
        for v in &vals {
            match v {   // exhaustiveness guard
                AvailableValue::Constant(_) | AvailableValue::Address(_) | AvailableValue::Memory(..) | AvailableValue::RegisterWithScalar(..)
                | AvailableValue::OriginalRegisterWithScalar(..) | AvailableValue::MemoryAtRegister(..) | AvailableValue::MemoryAtOriginalRegister(..)
                | AvailableValue::ValueInCsr(_) | AvailableValue::MemoryAtCsr(..) => {}
            }
        }
        let mut i = 0;
        while i < vals.len() {
            let mut j = i + 1;
            while j < vals.len() {
                assert!(tag(&vals[i]) != tag(&vals[j]), "two kinds of value share a tag in the dump");
                j += 1;
            }
            i += 1;
        }
    }
}

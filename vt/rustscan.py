"""Rust-aware source scanner used by the extractor and the weavers.

It does not parse Rust; it masks comments, string/char literals and raw strings
so that brace matching and keyword search on the *masked* text are reliable,
and then locates items by a path such as

    impl MathOp :: fn operate
    impl Iterator for Lexer :: fn next
    fn environment_in_outs
    enum Register
    struct Lexer
    impl HasRegisterSets for Register          (the whole impl block)

Every offset it returns indexes the ORIGINAL text, so extracted items are
byte-for-byte copies of what is in /repo.
"""
import re


class ScanError(Exception):
    """Lost anchor / ambiguous anchor: an infrastructure error (exit 2)."""


def mask(src: str) -> str:
    """Same length as src; comments and literal contents replaced by spaces
    (newlines kept)."""
    out = list(src)
    n = len(src)
    i = 0

    def blank(a, b):
        for k in range(a, b):
            if out[k] != '\n':
                out[k] = ' '

    while i < n:
        c = src[i]
        if c == '/' and i + 1 < n and src[i + 1] == '/':
            j = src.find('\n', i)
            if j < 0:
                j = n
            blank(i, j)
            i = j
        elif c == '/' and i + 1 < n and src[i + 1] == '*':
            depth = 1
            j = i + 2
            while j < n and depth:
                if src.startswith('/*', j):
                    depth += 1
                    j += 2
                elif src.startswith('*/', j):
                    depth -= 1
                    j += 2
                else:
                    j += 1
            blank(i, j)
            i = j
        elif c == '"':
            j = i + 1
            while j < n and src[j] != '"':
                j += 2 if src[j] == '\\' else 1
            blank(i + 1, min(j, n))
            i = j + 1
        elif c == 'r' and re.match(r'r#*"', src[i:i + 20]) and (i == 0 or not (src[i - 1].isalnum() or src[i - 1] == '_')):
            m = re.match(r'r(#*)"', src[i:i + 20])
            hashes = m.group(1)
            close = '"' + hashes
            j = src.find(close, i + len(m.group(0)))
            if j < 0:
                j = n
            blank(i + len(m.group(0)), j)
            i = j + len(close)
        elif c == 'b' and i + 1 < n and src[i + 1] == '"' and (i == 0 or not (src[i - 1].isalnum() or src[i - 1] == '_')):
            i += 1
        elif c == "'":
            # char literal or lifetime
            m = re.match(r"'(\\x[0-9a-fA-F]{2}|\\u\{[0-9a-fA-F_]+\}|\\.|[^\\'\n])'", src[i:i + 14])
            if m:
                blank(i + 1, i + len(m.group(0)) - 1)
                i += len(m.group(0))
            else:
                i += 1  # lifetime
        else:
            i += 1
    return ''.join(out)


def match_brace(msk: str, open_idx: int) -> int:
    """index of the brace closing the one at open_idx (on masked text)"""
    assert msk[open_idx] == '{'
    depth = 0
    for k in range(open_idx, len(msk)):
        ch = msk[k]
        if ch == '{':
            depth += 1
        elif ch == '}':
            depth -= 1
            if depth == 0:
                return k
    raise ScanError('unbalanced braces')


def _norm(s: str) -> str:
    s = re.sub(r'\s+', ' ', s.strip())
    s = re.sub(r'\s*([<>,:&])\s*', r'\1', s)
    return s


def _line_start(src, idx):
    return src.rfind('\n', 0, idx) + 1


def _attr_start(src, msk, idx):
    """walk upwards from the line containing idx over attribute / doc-comment
    lines; returns the offset of the first such line"""
    start = _line_start(src, idx)
    while start > 0:
        prev_start = _line_start(src, start - 1)
        line = src[prev_start:start - 1].strip()
        if line.startswith('#[') or line.startswith('///') or line.startswith('#!['):
            start = prev_start
        else:
            break
    return start


class Item:
    def __init__(self, src, start, sig, body_open, end, kind, name):
        self.src = src
        self.start = start        # first attribute/doc line
        self.sig = sig            # start of the line holding the keyword (pub fn / fn / enum ...)
        self.body_open = body_open  # index of '{' (or -1 for `;` items)
        self.end = end            # index one past the closing '}' / ';'
        self.kind = kind
        self.name = name

    @property
    def text(self):
        return self.src[self.start:self.end]

    @property
    def decl_text(self):
        """from the keyword line (attributes above it excluded) to the end"""
        return self.src[self.sig:self.end]

    def line(self):
        return self.src.count('\n', 0, self.sig) + 1


def _find_in(src, msk, lo, hi, depth_base, element, all_matches=False):
    """find one path element between lo and hi where the item sits at brace
    depth `depth_base` relative to lo"""
    element = element.strip()
    m = re.match(r'(fn|enum|struct|trait|mod|type|const|static)\s+([A-Za-z_][A-Za-z0-9_]*)$', element)
    cands = []
    if m:
        kind, name = m.group(1), m.group(2)
        pat = re.compile(r'\b%s\s+%s\b' % (kind, re.escape(name)))
    elif element.startswith('impl'):
        kind, name = 'impl', _norm(element)
        pat = re.compile(r'\bimpl\b')
    else:
        raise ScanError('bad path element %r' % element)
    depth = 0
    # pre-compute depth at each candidate lazily
    pos = lo
    last = lo
    for mm in pat.finditer(msk, lo, hi):
        depth += msk.count('{', last, mm.start()) - msk.count('}', last, mm.start())
        last = mm.start()
        if depth != depth_base:
            continue
        if kind == 'impl':
            ob = msk.find('{', mm.start(), hi)
            if ob < 0:
                continue
            header = _norm(msk[mm.start():ob])
            header_nog = re.sub(r'^impl<[^>]*>', 'impl ', header)
            header_nog = _norm(header_nog)
            # strip where clauses
            header_cmp = re.sub(r'\bwhere\b.*$', '', header_nog).strip()
            if header_cmp != name and header != name:
                continue
            cands.append((mm.start(), ob))
        else:
            # the body / terminator: first '{' or ';' at paren depth 0 after the name
            k = mm.end()
            par = 0
            ob = -1
            while k < hi:
                ch = msk[k]
                if ch in '([':
                    par += 1
                elif ch in ')]':
                    par -= 1
                elif ch == '{' and par == 0:
                    ob = k
                    break
                elif ch == ';' and par == 0:
                    ob = -k  # negative marks `;`
                    break
                k += 1
            cands.append((mm.start(), ob))
    if not cands:
        raise ScanError('anchor not found: %r' % element)
    if all_matches:
        out = []
        for kw, ob in cands:
            sig = _line_start(src, kw)
            start = _attr_start(src, msk, kw)
            if ob is not None and ob >= 0:
                out.append(Item(src, start, sig, ob, match_brace(msk, ob) + 1, kind, name))
            else:
                out.append(Item(src, start, sig, -1, (-ob) + 1, kind, name))
        return out
    if len(cands) > 1:
        raise ScanError('anchor ambiguous (%d matches): %r' % (len(cands), element))
    kw, ob = cands[0]
    sig = _line_start(src, kw)
    start = _attr_start(src, msk, kw)
    if ob is not None and ob >= 0:
        end = match_brace(msk, ob) + 1
        body_open = ob
    else:
        end = (-ob) + 1
        body_open = -1
    return Item(src, start, sig, body_open, end, kind, name)


def find_item(src: str, path: str, msk: str = None) -> Item:
    """resolve `a :: b :: c`; a container element (impl ...) may match several blocks, the one in which the rest of
    the path resolves is taken (it must be unique)"""
    msk = msk if msk is not None else mask(src)
    parts = [p.strip() for p in path.split(' :: ')]

    def resolve(k, lo, hi):
        last = k == len(parts) - 1
        cands = _find_in(src, msk, lo, hi, 0, parts[k], all_matches=True)
        if last:
            return cands
        found = []
        for c in cands:
            if c.body_open < 0:
                continue
            try:
                found += resolve(k + 1, c.body_open + 1, c.end - 1)
            except ScanError:
                continue
        return found

    res = resolve(0, 0, len(src))
    if not res:
        raise ScanError('anchor not found: %r' % path)
    if len(res) > 1:
        raise ScanError('anchor ambiguous (%d matches): %r' % (len(res), path))
    return res[0]


def loops_in(src: str, item: Item, msk: str = None):
    """offsets (in src) of the '{' that opens the body of each `while`/`loop`/`for`
    inside the item, in source order"""
    msk = msk if msk is not None else mask(src)
    res = []
    for mm in re.finditer(r'\b(while|loop|for)\b', msk[item.body_open:item.end]):
        k = item.body_open + mm.end()
        kwpos = item.body_open + mm.start()
        # `for` in `impl X for Y` cannot occur inside a fn body; closures `for<'a>` neither here
        par = 0
        while k < item.end:
            ch = msk[k]
            if ch in '([':
                par += 1
            elif ch in ')]':
                par -= 1
            elif ch == '{' and par == 0:
                # skip struct-literal-free assumption: first '{' at paren depth 0
                res.append((kwpos, k))
                break
            k += 1
    return res

import hashlib
import json
import os
import shutil
import subprocess
import sys
import time

VERIF = os.path.dirname(os.path.dirname(os.path.abspath(__file__)))
REPO = os.environ.get('VERIF_REPO', '/repo')
CONTRACTS = os.path.join(VERIF, 'contracts')
CACHE = os.path.join(VERIF, '.cache')
SCRATCH_ROOT = os.environ.get('VERIF_SCRATCH', '/var/tmp/rva-verif')


class Infra(Exception):
    """Tool / infrastructure problem: the check is UNDECIDED (exit 2), never an alarm."""


def sha256(text: str) -> str:
    return hashlib.sha256(text.encode('utf-8')).hexdigest()


def read(path):
    with open(path, encoding='utf-8') as f:
        return f.read()


def write(path, text):
    os.makedirs(os.path.dirname(path), exist_ok=True)
    with open(path, 'w', encoding='utf-8') as f:
        f.write(text)


def log(*a):
    print(*a, file=sys.stderr, flush=True)


def offline_env():
    env = dict(os.environ)
    env['CARGO_NET_OFFLINE'] = 'true'
    env.pop('RUSTFLAGS', None)
    return env


def new_scratch(tag):
    d = os.path.join(SCRATCH_ROOT, '%s-%d' % (tag, os.getpid()))
    shutil.rmtree(d, ignore_errors=True)
    os.makedirs(d)
    return d


def rm_scratch(d):
    shutil.rmtree(d, ignore_errors=True)
    try:
        os.rmdir(SCRATCH_ROOT)
    except OSError:
        pass

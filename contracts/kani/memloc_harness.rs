// ---- woven by /verif (unit `memloc`); compiled only under cfg(kani) ----
// C19: the hand-written string encoding of `MemoryLocation` is reloadable:
//      decode(encode(m)) == Ok(m), and neither side panics (C06).
// Injectivity of encode follows: encode(a) == encode(b) ==> a == decode(encode(a)) == decode(encode(b)) == b.
//
// The REAL `Serialize::serialize`, `Deserialize::deserialize` and `MemoryLocationVisitor::visit_str`
// are executed, including std's `format!`, integer formatting and integer parsing.
//
// Shape of every harness (a two-step proof of the round trip through an intermediate string):
//      let w = wire(&m);                 // the wire form written out by hand in the harness (no std::fmt)
//      assert!(encode(&m) == w);         // (1) the real serializer emits exactly w
//      assert!(decode(&w) == Ok(m));     // (2) the real deserializer maps w back to m
// (1) and (2) give decode(encode(m)) == Ok(m).  `wire` is NOT trusted: if it were wrong, (1) or (2) fails.
// Feeding `encode`'s own output into `decode` inside CBMC is intractable here (the String that comes out
// of `fmt::write` has a symbolic length/content after CBMC merged all `dyn`/fn-pointer candidates, and
// `split('+')`/`parse` then unwind over it; > 600 s even for the constant StackOffset(0)).
//
// Three std functions that only build a panic MESSAGE are replaced by a plain panic (same behaviour:
// they never return, and reaching them still fails the harness):
//   * core::result::unwrap_failed                 (message of Result::unwrap/expect inside std::fmt)
//   * <core::num::TryFromIntError as Debug>::fmt  (argument of such a message)
//   * core::str::slice_error_fail                 (message of a failed str slice / split_at)
// Without them the `{:?}` formatting code for those messages becomes a candidate of every formatting
// fn-pointer call and drags `PadAdapter::write_str` (recursive through `dyn Write`) into the model; CBMC
// then unwinds that recursion forever, even for constant inputs.
#[cfg(kani)]
mod verif_kani_memloc {
    use super::{MemoryLocation, MemoryLocationVisitor};
    use crate::parser::CsrImm;
    use serde::de::value::StrDeserializer;
    use serde::de::Visitor;
    use serde::ser::Impossible;
    use serde::{Deserialize, Serialize, Serializer};

    /// Error type of the capturing serializer / of the decoder: carries nothing, so that the
    /// (unreachable on a correct tree) error paths do not drag `to_string` into the model.
    #[derive(Debug)]
    pub struct E;
    impl core::fmt::Display for E {
        fn fmt(&self, f: &mut core::fmt::Formatter<'_>) -> core::fmt::Result { f.write_str("E") }
    }
    impl std::error::Error for E {}
    impl serde::ser::Error for E { fn custom<T: core::fmt::Display>(_: T) -> Self { E } }
    impl serde::de::Error for E { fn custom<T: core::fmt::Display>(_: T) -> Self { E } }

    /// A `Serializer` that records the string handed to `serialize_str`; every other entry point
    /// is an error (the encoding under contract is "one string").
    struct Capture;
    macro_rules! refuse { ($($f:ident($($t:ty),*);)*) => { $(fn $f(self $(, _: $t)*) -> Result<String, E> { Err(E) })* } }
    impl Serializer for Capture {
        type Ok = String;
        type Error = E;
        type SerializeSeq = Impossible<String, E>;
        type SerializeTuple = Impossible<String, E>;
        type SerializeTupleStruct = Impossible<String, E>;
        type SerializeTupleVariant = Impossible<String, E>;
        type SerializeMap = Impossible<String, E>;
        type SerializeStruct = Impossible<String, E>;
        type SerializeStructVariant = Impossible<String, E>;
        fn serialize_str(self, v: &str) -> Result<String, E> { Ok(String::from(v)) }
        refuse! {
            serialize_bool(bool); serialize_i8(i8); serialize_i16(i16); serialize_i32(i32); serialize_i64(i64);
            serialize_u8(u8); serialize_u16(u16); serialize_u32(u32); serialize_u64(u64);
            serialize_f32(f32); serialize_f64(f64); serialize_char(char); serialize_bytes(&[u8]);
            serialize_none(); serialize_unit(); serialize_unit_struct(&'static str);
            serialize_unit_variant(&'static str, u32, &'static str);
        }
        fn serialize_some<T: ?Sized + Serialize>(self, _: &T) -> Result<String, E> { Err(E) }
        fn serialize_newtype_struct<T: ?Sized + Serialize>(self, _: &'static str, _: &T) -> Result<String, E> { Err(E) }
        fn serialize_newtype_variant<T: ?Sized + Serialize>(self, _: &'static str, _: u32, _: &'static str, _: &T) -> Result<String, E> { Err(E) }
        fn serialize_seq(self, _: Option<usize>) -> Result<Self::SerializeSeq, E> { Err(E) }
        fn serialize_tuple(self, _: usize) -> Result<Self::SerializeTuple, E> { Err(E) }
        fn serialize_tuple_struct(self, _: &'static str, _: usize) -> Result<Self::SerializeTupleStruct, E> { Err(E) }
        fn serialize_tuple_variant(self, _: &'static str, _: u32, _: &'static str, _: usize) -> Result<Self::SerializeTupleVariant, E> { Err(E) }
        fn serialize_map(self, _: Option<usize>) -> Result<Self::SerializeMap, E> { Err(E) }
        fn serialize_struct(self, _: &'static str, _: usize) -> Result<Self::SerializeStruct, E> { Err(E) }
        fn serialize_struct_variant(self, _: &'static str, _: u32, _: &'static str, _: usize) -> Result<Self::SerializeStructVariant, E> { Err(E) }
    }

    /// encode with the real `Serialize` impl
    fn encode(m: &MemoryLocation) -> String {
        match m.serialize(Capture) {
            Ok(s) => s,
            Err(E) => panic!("MemoryLocation::serialize did not produce a string"),
        }
    }

    /// decode with the real `Deserialize` impl (-> `deserialize_str` -> `MemoryLocationVisitor::visit_str`)
    fn decode(s: &str) -> Result<MemoryLocation, E> {
        MemoryLocation::deserialize(StrDeserializer::<E>::new(s))
    }

    /// The wire form, written out by hand: "so+N" / "so-N" (N = |offset| in decimal), "csr+C",
    /// "csro+C+I" (I = offset as signed decimal, '-' only when negative).
    fn wire(m: &MemoryLocation) -> String {
        fn dec(out: &mut String, mut n: u64) {
            let mut buf = [0u8; 10];
            let mut k = 10;
            loop {
                k -= 1;
                buf[k] = b'0' + (n % 10) as u8;
                n /= 10;
                if n == 0 { break; }
            }
            while k < 10 { out.push(buf[k] as char); k += 1; }
        }
        let mut out = String::new();
        match m {
            MemoryLocation::StackOffset(i) => {
                out.push_str(if *i < 0 { "so-" } else { "so+" });
                dec(&mut out, (*i as i64).unsigned_abs());
            }
            MemoryLocation::CsrRegister(c) => {
                out.push_str("csr+");
                dec(&mut out, c.value() as u64);
            }
            MemoryLocation::CsrRegisterValueOffset(c, i) => {
                out.push_str("csro+");
                dec(&mut out, c.value() as u64);
                out.push('+');
                if *i < 0 { out.push('-'); }
                dec(&mut out, (*i as i64).unsigned_abs());
            }
        }
        out
    }

    /// THE obligation: decode(encode(m)) == Ok(m) (via the intermediate string, see the file header);
    /// any panic inside either side fails the harness.
    fn roundtrip(m: MemoryLocation) {
        let w = wire(&m);
        // (1) the real serializer emits exactly w
        let s = encode(&m);
        assert!(s == w, "serialize emits a different string than the documented wire form");
        // (2) the real visitor (what any self-describing format ends up calling) maps w back to m ...
        match MemoryLocationVisitor.visit_str::<E>(&w) {
            Ok(back) => assert!(back == m, "visit_str(encode(m)) is a different memory location"),
            Err(E) => panic!("visit_str rejects the emitted encoding"),
        }
        // ... and so does the public Deserialize impl
        match decode(&w) {
            Ok(back) => assert!(back == m, "decode(encode(m)) is a different memory location"),
            Err(E) => panic!("the emitted encoding cannot be loaded"),
        }
    }

    fn unwrap_failed_plain(_msg: &str, _e: &dyn core::fmt::Debug) -> ! {
        panic!("Result::unwrap()/expect() on an Err value inside std")
    }
    fn no_debug_try_from_int(_x: &core::num::TryFromIntError, _f: &mut core::fmt::Formatter<'_>) -> core::fmt::Result {
        panic!("Debug formatting of TryFromIntError reached")
    }

    fn slice_error_fail_plain(_s: &str, _begin: usize, _end: usize) -> ! {
        panic!("str slice index out of range or not on a char boundary")
    }

    /// `h!(name, unwind, { body })`: a proof harness with the three panic-message stubs
    macro_rules! h {
        ($(#[$doc:meta])* $name:ident, $unwind:literal, $body:block) => {
            $(#[$doc])*
            #[kani::proof]
            #[kani::unwind($unwind)]
            #[kani::stub(core::result::unwrap_failed, unwrap_failed_plain)]
            #[kani::stub(core::str::slice_error_fail, slice_error_fail_plain)]
            #[kani::stub(<core::num::TryFromIntError as core::fmt::Debug>::fmt, no_debug_try_from_int)]
            fn $name() $body
        };
    }

    fn so(i: i32) -> MemoryLocation { MemoryLocation::StackOffset(i) }
    fn csr(c: u32) -> MemoryLocation { MemoryLocation::CsrRegister(CsrImm::new(c)) }
    fn csro(c: u32, i: i32) -> MemoryLocation { MemoryLocation::CsrRegisterValueOffset(CsrImm::new(c), i) }

    // ------------------------------------------------------------------ StackOffset
    h!(
    /// bounded: offset symbolic in -9..=9
    so_small, 8, {
        let i: i32 = kani::any();
        kani::assume(i >= -9 && i <= 9);
        kani::cover!(i < 0, "negative stack offset");
        kani::cover!(i == 0, "zero stack offset");
        kani::cover!(i > 0, "positive stack offset");
        roundtrip(so(i));
    });

    h!(
    /// bounded: offset symbolic in -128..=127 (two and three digit numbers, both signs)
    so_byte, 10, {
        let i: i8 = kani::any();
        kani::cover!(i <= -100, "three digits, negative");
        kani::cover!(i >= 100, "three digits, positive");
        kani::cover!(i > -100 && i <= -10, "two digits, negative");
        roundtrip(so(i as i32));
    });

    // boundary values, concrete (bound = exactly this value)
    h!(so_min, 24, { roundtrip(so(i32::MIN)); });
    h!(so_min_plus_1, 24, { roundtrip(so(i32::MIN + 1)); });
    h!(so_minus_1, 24, { roundtrip(so(-1)); });
    h!(so_zero, 24, { roundtrip(so(0)); });
    h!(so_max, 24, { roundtrip(so(i32::MAX)); });

    // ------------------------------------------------------------------ CsrRegister
    h!(
    /// bounded: csr symbolic in 0..=9
    csr_small, 8, {
        let c: u32 = kani::any();
        kani::assume(c <= 9);
        kani::cover!(c == 0, "csr 0");
        kani::cover!(c == 9, "csr 9");
        roundtrip(csr(c));
    });

    h!(
    /// bounded: csr symbolic in 0..=255
    csr_byte, 10, {
        let c: u8 = kani::any();
        kani::cover!(c >= 100, "three digits");
        kani::cover!(c >= 10 && c < 100, "two digits");
        roundtrip(csr(c as u32));
    });

    h!(csr_zero, 24, { roundtrip(csr(0)); });
    // 0xFFF is the largest architectural CSR number
    h!(csr_4095, 24, { roundtrip(csr(4095)); });
    h!(csr_max, 24, { roundtrip(csr(u32::MAX)); });

    // ------------------------------------------------------------------ CsrRegisterValueOffset
    h!(
    /// bounded: csr symbolic in 0..=9, offset symbolic in -9..=9
    csro_small, 8, {
        let c: u32 = kani::any();
        let i: i32 = kani::any();
        kani::assume(c <= 9);
        kani::assume(i >= -9 && i <= 9);
        kani::cover!(i < 0 && c > 0, "negative offset");
        kani::cover!(i > 0 && c > 0, "positive offset");
        kani::cover!(i == 0 && c == 0, "all zero");
        roundtrip(csro(c, i));
    });

    h!(csro_zero_min, 24, { roundtrip(csro(0, i32::MIN)); });
    h!(csro_max_min, 24, { roundtrip(csro(u32::MAX, i32::MIN)); });
    h!(csro_max_max, 24, { roundtrip(csro(u32::MAX, i32::MAX)); });
    h!(csro_4095_minus_1, 24, { roundtrip(csro(4095, -1)); });
    // csr and offset must not be swapped: distinct one-digit payloads
    h!(csro_7_3, 24, { roundtrip(csro(7, 3)); });
}

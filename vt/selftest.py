"""./check selftest [<seed-id> ...]: re-derive the catch matrix of DESIGN 10.5 without touching /repo.
Each seeded change (seeded/<id>/patch.diff) is applied to a scratch copy of /repo's working tree; the property's quick check
runs against that copy (VERIF_REPO) with a scratch copy of the replay runner whose path dependency points at it; the verdict
is compared with the one recorded in seeded/<id>/result.json. Nothing here prints the word that marks a real alarm."""
import glob
import json
import os
import shutil
import subprocess
import sys

from .common import VERIF

ROOT = '/var/tmp/rva-selftest'


def main(args):
    record = '--record' in args     # write result.json from this run instead of comparing with it
    args = [a for a in args if a != '--record']
    seeds = sorted(glob.glob(os.path.join(VERIF, 'seeded', 'C*-*')))
    if args:
        seeds = [s for s in seeds if os.path.basename(s) in args]
    repo = os.path.join(ROOT, 'repo')
    runner = os.path.join(ROOT, 'replay_runner')
    os.makedirs(ROOT, exist_ok=True)
    bad = 0
    try:
        # scratch replay runner (own target dir, path dependency on the scratch repo)
        shutil.rmtree(runner, ignore_errors=True)
        shutil.copytree(os.path.join(VERIF, 'replay_runner'), runner, ignore=shutil.ignore_patterns('target'))
        toml = open(os.path.join(runner, 'Cargo.toml')).read().replace('/repo/riscv_analysis', repo + '/riscv_analysis')
        open(os.path.join(runner, 'Cargo.toml'), 'w').write(toml)
        for d in seeds:
            sid = os.path.basename(d)
            meta = json.load(open(os.path.join(d, 'meta.json')))
            rj = os.path.join(d, 'result.json')
            want = json.load(open(rj)).get(meta['property'], {}).get('exit') if os.path.exists(rj) else None
            subprocess.run(['rsync', '-a', '--delete', '--exclude', '/target', '--exclude', '.git', '/repo/', repo + '/'], check=True)
            r = subprocess.run(['patch', '-p1', '-s', '-i', os.path.join(d, 'patch.diff')], cwd=repo, capture_output=True, text=True)
            if r.returncode != 0:
                print('selftest %s: patch does not apply to the current tree (skipped)' % sid)
                continue
            env = dict(os.environ, VERIF_REPO=repo, VERIF_RUNNER_DIR=runner, VERIF_SELFTEST='1')
            c = subprocess.run([os.path.join(VERIF, 'check'), meta['property'], '--tier', 'quick'], capture_output=True, text=True, env=env, cwd=VERIF)
            got = c.returncode
            if record:
                lines = [l.replace('/var/tmp/rva-selftest/out', '/verif') for l in c.stdout.splitlines() if l.startswith(('VIOLATION', 'UNDECIDED', 'OK', 'KNOWN-FINDING'))]
                json.dump({meta['property']: {'exit': got, 'lines': lines, 'on': 'scratch copy of /repo (check selftest --record)'}}, open(rj, 'w'), indent=1)
                want = got
            verdict = {0: 'not seen', 1: 'caught', 2: 'undecided'}.get(got, str(got))
            ok = (got == want)
            bad += 0 if ok else 1
            obl = [l.split('obligation=')[1].split()[0] for l in c.stdout.splitlines() if 'obligation=' in l][:3]
            print('selftest %s (%s): %s%s%s' % (sid, meta['property'], verdict, (' by ' + ', '.join(obl)) if obl else '',
                                               '' if ok else '   <-- recorded verdict was %s' % {0: 'not seen', 1: 'caught', 2: 'undecided'}.get(want, want)))
            sys.stdout.flush()
    finally:
        shutil.rmtree(ROOT, ignore_errors=True)
    print('selftest: %d seeds, %d differ from the recorded verdict' % (len(seeds), bad))
    return 0 if bad == 0 else 2

# unit `getany` — AnnotatedLexer::get_any: an instruction's raw range runs from its first to its last token (Verus)
import os, sys
sys.path.insert(0, os.path.dirname(os.path.abspath(__file__)))
from lib import mk
P = 'riscv_analysis/src/parser/'

UNIT = {
    'unit': 'getany', 'backend': 'verus',
    'uses': ['use vstd::std_specs::cmp::{PartialEqSpec, PartialEqSpecImpl};', 'use vstd::std_specs::convert::{FromSpec, FromSpecImpl};'],
    'prelude': ['verus/getany_spec.rs'],
    'items': [
        {'file': P + 'position.rs', 'item': 'struct Position', 'attrs': 'drop', 'pre_lines': ['#[derive(Clone, Copy)]']},
        {'file': P + 'range.rs', 'item': 'struct Range', 'attrs': 'drop'},
        {'file': P + 'range.rs', 'item': 'impl Range :: fn new', 'wrap': 'impl Range', 'fn': 'Range::new', 'attrs': 'drop', 'ret': 'r',
         'ensures': [('post', 'r.s_start() == start && r.s_end() == end')]},
        {'file': P + 'range.rs', 'item': 'impl Range :: fn start', 'wrap': 'impl Range', 'fn': 'Range::start', 'attrs': 'drop', 'ret': 'r',
         'ensures': [('post', '*r == self.s_start()')]},
        {'file': P + 'range.rs', 'item': 'impl Range :: fn end', 'wrap': 'impl Range', 'fn': 'Range::end', 'attrs': 'drop', 'ret': 'r',
         'ensures': [('post', '*r == self.s_end()')]},
        {'file': P + 'token_type.rs', 'item': 'enum TokenType', 'attrs': 'drop', 'pre_lines': ['#[derive(Clone, Default)]']},
        {'file': P + 'rawtoken.rs', 'item': 'struct RawToken', 'attrs': 'drop'},
        {'file': P + 'rawtoken.rs', 'item': 'impl RawToken :: fn new', 'wrap': 'impl RawToken', 'fn': 'RawToken::new', 'attrs': 'drop', 'ret': 'r',
         'ensures': [('post', 'r.s_pos() == pos && r.s_file() == file')]},
        {'file': P + 'rawtoken.rs', 'item': 'impl DiagnosticLocation for RawToken :: fn range', 'wrap': 'impl RawToken', 'fn': 'RawToken::range', 'attrs': 'drop', 'ret': 'r',
         'ensures': [('post', 'r == self.s_pos()')], 'rewrites': [(r'super::Range', 'Range', 1)]},
        {'file': P + 'rawtoken.rs', 'item': 'impl DiagnosticLocation for RawToken :: fn file', 'wrap': 'impl RawToken', 'fn': 'RawToken::file', 'attrs': 'drop', 'ret': 'r',
         'ensures': [('post', 'r == self.s_file()')]},
        {'file': P + 'rawtoken.rs', 'item': 'impl DiagnosticLocation for RawToken :: fn raw_text', 'wrap': 'impl RawToken', 'fn': 'RawToken::raw_text', 'attrs': 'drop', 'ret': 'r'},
        {'file': P + 'token.rs', 'item': 'struct Token', 'attrs': 'drop'},
        {'file': P + 'token.rs', 'item': 'impl Token :: fn new', 'wrap': 'impl Token', 'fn': 'Token::new', 'attrs': 'drop', 'ret': 'r',
         'ensures': [('post', 'r.s_raw().s_pos() == pos && r.s_raw().s_file() == file')]},
        {'file': P + 'token.rs', 'item': 'impl Token :: fn token_type', 'wrap': 'impl Token', 'fn': 'Token::token_type', 'attrs': 'drop', 'ret': 'r',
         'ensures': [('post', '*r == self.s_type()')]},
        {'file': P + 'token.rs', 'item': 'impl DiagnosticLocation for Token :: fn range', 'wrap': 'impl Token', 'fn': 'Token::range', 'attrs': 'drop', 'ret': 'r',
         'ensures': [('post', 'r == self.s_raw().s_pos()')], 'rewrites': [(r'super::Range', 'Range', 1)]},
        {'file': P + 'token.rs', 'item': 'impl DiagnosticLocation for Token :: fn raw_text', 'wrap': 'impl Token', 'fn': 'Token::raw_text', 'attrs': 'drop', 'ret': 'r'},
        {'file': P + 'token.rs', 'item': 'impl From<Token> for RawToken :: fn from', 'wrap': 'impl From<Token> for RawToken', 'fn': 'RawToken::from', 'attrs': 'drop', 'ret': 'r',
         'ensures': [('post', 'r == token.s_raw()')]},
        {'file': P + 'error.rs', 'item': 'enum LexError', 'attrs': 'drop', 'pre_lines': ['#[derive(Clone)]']},
        {'file': P + 'parsing.rs', 'item': 'struct AnnotatedLexer', 'attrs': 'drop'},
        {'file': P + 'parsing.rs', 'item': "impl AnnotatedLexer<'_> :: fn get_any", 'wrap': "impl AnnotatedLexer<'_>", 'fn': 'get_any', 'attrs': 'drop', 'ret': 'r',
         'rewrites': [('lit', 'format!("{} {}", self.raw_token.raw_text(), item.raw_text())',
                       'verif_format_pair(self.raw_token.raw_text(), item.raw_text())', 1)],
         'ensures': [('stream', 'took_next(old(self).lexer.remaining(), final(self).lexer.remaining(), r)'),
                     ('eof', 'old(self).lexer.remaining().len() == 0 ==> eof_error(old(self).raw_token, r)'),
                     ('range', 'match r { Ok(t) => accumulated(old(self).raw_token, final(self).raw_token, t), Err(_) => final(self).raw_token == old(self).raw_token }')]},
    ],
    'functions': [], 'obligations': [],
}
PROPS = {it['fn']: ['C09'] for it in UNIT['items'] if 'fn' in it}
TEXTS = {('get_any', 'eof'): 'at the end of the token stream: UnexpectedEOF if no statement has been started, otherwise an error located on the part of the statement read so far',
         ('get_any', 'stream'): 'hands out exactly the next item of the token stream (UnexpectedEOF at its end) and consumes exactly that item',
         ('get_any', 'range'): 'on Ok(t): a line terminator or comment leaves the accumulator alone; otherwise the first token handed out becomes the accumulated raw token, every later token keeps its start (and file) and moves its end '
                              'to the end of t - so an instruction\'s range runs from its first to its last token; on Err the accumulator is unchanged',
         'post': 'returns exactly what its specification says'}
mk.make(UNIT, PROPS, TEXTS, search=['getany-search'])

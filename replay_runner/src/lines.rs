//! Bounded native check of the parser-level half of C07 (public API only): files of one statement per line; every
//! line that holds more than blanks or a comment must yield a node located on it or a parse error located on it, and
//! a malformed line must not change how the other lines are read.
use riscv_analysis::parser::{InstructionProperties, ParserNode, RVStringParser};
use riscv_analysis::passes::DiagnosticLocation;
use std::panic::{catch_unwind, AssertUnwindSafe};

const GOOD: [&str; 9] = ["addi t0, t0, 1", "lbl: add t1, t1, t2", "lw a0, 4(sp)", ".text", "ret", "j lbl", ".word 1, 2", "sw ra, 0(sp)", "li a7, 10"];
const BAD: [&str; 14] = ["addi t0, t0", "foo t0, t1", "addi t0, t0, zz", "add t0, t1, @", "lw a0, 4(sp", ".asciz \"abc", "li t0, 99999999999",
                         "jal", "beq t0, t1", ".bogus 3", "add t0, t1, t2 t3", "'x", ")", "move t0, t1 ; not"];

/// lines that may be accepted or rejected (data directives with values in and out of range, strings, unsupported directives):
/// the accounting is the same either way
const ANY: [&str; 14] = [".byte 1, 300", ".half 70000", ".byte -200", ".word 99999999999", ".byte 1, 2, 3", ".half 1", ".asciz \"a b\"", ".string \"x\"",
                         ".space 4", ".align 2", ".globl lbl", ".data", ".dword 1", ".float 1.5"];

fn kind(n: &ParserNode) -> String {
    // identity of a node up to its position: the statement text it was read from
    n.raw_text().split_whitespace().collect::<Vec<_>>().join(" ")
}

/// per source line: the statements / errors located on it
fn read(text: &str) -> Result<(Vec<Vec<String>>, Vec<usize>), String> {
    let (nodes, errors) = catch_unwind(AssertUnwindSafe(|| RVStringParser::parse_from_text(text))).map_err(|_| format!("parser panicked on {text:?}"))?;
    let nlines = text.split('\n').count();
    let mut per_line = vec![Vec::new(); nlines + 1];
    for n in &nodes {
        if matches!(n, ParserNode::ProgramEntry(_)) { continue; }
        let l = n.range().start().zero_idx_line();
        if l < per_line.len() { per_line[l].push(kind(n)); }
    }
    let mut err_lines = Vec::new();
    for e in &errors { err_lines.push(e.range().start().zero_idx_line()); }
    Ok((per_line, err_lines))
}

fn check_file(lines: &[&str], trailing_newline: bool, eol: &str) -> Option<String> {
    let mut text = lines.join(eol);
    if trailing_newline { text.push_str(eol); }
    let (per_line, err_lines) = match read(&text) { Ok(x) => x, Err(e) => return Some(e) };
    for (i, l) in lines.iter().enumerate() {
        let content = l.split('#').next().unwrap_or("").trim();
        if content.is_empty() { continue; }
        if per_line[i].is_empty() && !err_lines.contains(&i) {
            return Some(format!("line {i} ({l:?}) of {text:?} produced neither a node nor a parse error located on it"));
        }
    }
    // containment: deleting a line that produced an error must leave the nodes of all other lines unchanged
    for (i, _) in lines.iter().enumerate() {
        if !err_lines.contains(&i) { continue; }
        let rest: Vec<&str> = lines.iter().enumerate().filter(|(k, _)| *k != i).map(|(_, l)| *l).collect();
        let mut t2 = rest.join(eol);
        if trailing_newline { t2.push_str(eol); }
        let (per2, _) = match read(&t2) { Ok(x) => x, Err(e) => return Some(e) };
        for (k, _) in lines.iter().enumerate() {
            if k == i { continue; }
            let k2 = if k < i { k } else { k - 1 };
            if per_line[k] != per2[k2] {
                return Some(format!("the malformed line {i} ({:?}) of {text:?} changes how line {k} ({:?}) is read: {:?} with it, {:?} without it", lines[i], lines[k], per_line[k], per2[k2]));
            }
        }
    }
    None
}

/// every character prefix of every statement form of the decode table, as a middle line and as the final line (with and
/// without a line terminator): a truncated statement is still a line that must yield a node or an error located on it
fn search_prefixes(n: &mut u64) -> Option<String> {
    for st in crate::decode::statement_forms() {
        let chars: Vec<char> = st.chars().collect();
        for cut in 1..=chars.len() {
            let pre: String = chars[..cut].iter().collect();
            if pre.trim().is_empty() { continue; }
            for (nl, eol) in [(false, "\n"), (true, "\n"), (true, "\r\n")] {
                for lines in [vec!["addi t0, t0, 1", pre.as_str()], vec!["addi t0, t0, 1", pre.as_str(), "L:", "sub t1, t1, t2"]] {
                    *n += 1;
                    if let Some(w) = check_file(&lines, nl, eol) { return Some(w); }
                }
            }
        }
    }
    None
}

pub fn search(v: &serde_json::Value) -> i32 {
    if let Some(text) = v.get("inputs").and_then(|i| i.get("text")).and_then(|s| s.as_str()) {
        let (eol, body) = if text.contains("\r\n") { ("\r\n", text.to_string()) } else { ("\n", text.to_string()) };
        let nl = body.ends_with(eol);
        let trimmed = if nl { &body[..body.len() - eol.len()] } else { &body[..] };
        let lines: Vec<&str> = trimmed.split(eol).collect();
        return match check_file(&lines, nl, eol) { Some(w) => { println!("witness: {w}"); 1 } None => { println!("no line of {text:?} is dropped"); 0 } };
    }
    let mut n = 0u64;
    if let Some(w) = search_prefixes(&mut n) { println!("witness: {w}"); return 1; }
    for bad in BAD {
        for g1 in GOOD { for g2 in GOOD {
            for (nl, eol) in [(true, "\n"), (false, "\n"), (true, "\r\n")] {
                for lines in [vec![g1, bad, g2], vec![bad, g1, g2], vec![g1, g2, bad], vec![g1, "", bad, "# c", g2]] {
                    n += 1;
                    if let Some(w) = check_file(&lines, nl, eol) { println!("witness: {w}"); return 1; }
                }
            }
        } }
    }
    for g1 in GOOD { for g2 in GOOD { for (nl, eol) in [(true, "\n"), (false, "\n"), (true, "\r\n")] {
        n += 1;
        if let Some(w) = check_file(&[g1, g2], nl, eol) { println!("witness: {w}"); return 1; }
    } } }
    for a in ANY { for g1 in GOOD { for a2 in ANY { for (nl, eol) in [(true, "\n"), (false, "\n"), (true, "\r\n")] {
        for lines in [vec![g1, a, "lbl:", g1], vec![a, g1], vec![g1, a], vec![a, a2, g1], vec![g1, a, a2]] {
            n += 1;
            if let Some(w) = check_file(&lines, nl, eol) { println!("witness: {w}"); return 1; }
        }
    } } } }
    let mut pairs = 0u64;
    if let Some(w) = search_includes(&mut pairs) { println!("witness: {w}"); return 1; }
    println!("no failing input among {n} single files and {pairs} base+include pairs");
    0
}

// ---- base file + included file (in-memory FileReader) ----
use riscv_analysis::parser::RVParser;
use riscv_analysis::reader::{FileReader, FileReaderError};
use std::collections::HashMap;
use uuid::Uuid;

#[derive(Default, Clone)]
struct MemReader { disk: HashMap<String, String>, read: HashMap<Uuid, String>, base: Option<Uuid> }
impl FileReader for MemReader {
    fn import_file(&mut self, path: &str, _parent: Option<Uuid>) -> Result<(Uuid, String), FileReaderError> {
        if self.read.values().any(|p| p == path) { return Err(FileReaderError::FileAlreadyRead(path.to_string())); }
        let text = self.disk.get(path).ok_or(FileReaderError::InvalidPath)?.clone();
        let id = Uuid::new_v4();
        self.read.insert(id, path.to_string());
        self.base.get_or_insert(id);
        Ok((id, text))
    }
    fn get_text(&self, uuid: Uuid) -> Option<String> { self.disk.get(self.read.get(&uuid)?).cloned() }
    fn get_filename(&self, uuid: Uuid) -> Option<String> { self.read.get(&uuid).cloned() }
    fn get_base_file(&self) -> Option<Uuid> { self.base }
}

/// every non-blank line of both files yields a node or an error located on it IN THAT FILE
fn check_two_files(main: &[&str], util: &[&str]) -> Option<String> { check_two_files_nl(main, util, true, "\n") }

fn check_two_files_nl(main: &[&str], util: &[&str], util_newline: bool, eol: &str) -> Option<String> {
    let mut disk = HashMap::new();
    disk.insert("main.s".to_string(), main.join(eol) + eol);
    disk.insert("util.s".to_string(), util.join(eol) + if util_newline { eol } else { "" });
    let res = catch_unwind(AssertUnwindSafe(|| {
        let mut parser = RVParser::new(MemReader { disk, ..Default::default() });
        let (nodes, errors) = parser.parse_from_file("main.s", false);
        let name = |id: Uuid| parser.reader.get_filename(id).unwrap_or_default();
        let n: Vec<(String, usize)> = nodes.iter().filter(|n| !matches!(n, ParserNode::ProgramEntry(_))).map(|n| (name(n.file()), n.range().start().zero_idx_line())).collect();
        let e: Vec<(String, usize)> = errors.iter().map(|e| (name(e.file()), e.range().start().zero_idx_line())).collect();
        (n, e)
    }));
    let (nodes, errors) = match res { Ok(x) => x, Err(_) => return Some(format!("parser panicked on main.s = {main:?}, util.s = {util:?}")) };
    for (fname, lines) in [("main.s", main), ("util.s", util)] {
        for (i, l) in lines.iter().enumerate() {
            let content = l.split('#').next().unwrap_or("").trim();
            if content.is_empty() || content.starts_with(".include") { continue; }
            let here = |v: &Vec<(String, usize)>| v.iter().any(|(f, k)| f == fname && *k == i);
            if !here(&nodes) && !here(&errors) {
                return Some(format!("line {i} ({l:?}) of {fname} produced neither a node nor a parse error located on it (main.s = {main:?}, util.s = {util:?})"));
            }
        }
    }
    None
}

pub fn search_includes(pairs: &mut u64) -> Option<String> {
    let bads = ["foo t0, t1", "bar t1, t2", ".bogus 3", "addi t0, t0, zz", "add t0, t1, @"];
    for b1 in bads { for b2 in bads { for g in GOOD {
        for (main, util) in [(vec![b1, ".include \"util.s\"", g], vec![b2, g]), (vec![g, b1, ".include \"util.s\""], vec![g, b2]),
                             (vec![".include \"util.s\"", b1, g], vec![b2])] {
            *pairs += 1;
            if let Some(w) = check_two_files(&main, &util) { return Some(w); }
        }
    } } }
    // a malformed line at every position of an included file of 1..3 lines (also as its unterminated last line), the include
    // statement at every position of a base file of 5 lines
    let all_bad: Vec<&str> = BAD.iter().copied().chain(["lw a0, 4(", "sw a0", ".word 1,", "addi t0, t0, 1 ;"]).collect();
    for b in &all_bad { for ulen in 1..=3usize { for bpos in 0..ulen { for ipos in 0..5usize {
        for (unl, eol) in [(true, "\n"), (false, "\n"), (true, "\r\n")] {
            let util: Vec<&str> = (0..ulen).map(|k| if k == bpos { *b } else { ["helper:", "nop", "ret"][k] }).collect();
            let body = ["main:", "add a1, a1, a1", "sub a2, a2, a2", "xor a3, a3, a3", "li a7, 10"];
            let mut main: Vec<&str> = body.to_vec();
            main[ipos] = ".include \"util.s\"";
            *pairs += 1;
            if let Some(w) = check_two_files_nl(&main, &util, unl, eol) { return Some(w); }
        }
    } } } }
    None
}

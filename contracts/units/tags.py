# unit `tags` — AvailableValue variant tags in the dump are pairwise different (Kani, finite enumeration: complete)
UNIT = {
    'unit': 'tags', 'backend': 'kani', 'crate': 'riscv_analysis',
    'weave': [{'file': 'riscv_analysis/src/analysis/available.rs', 'append': 'kani/tags_harness.rs'}],
    'functions': [{'file': 'riscv_analysis/src/analysis/available.rs', 'item': 'enum AvailableValue'}],
    'obligations': [
        {'id': 'tags.pairwise_distinct', 'harness': 'analysis::available::verif_kani_tags::tags_pairwise_distinct', 'props': ['C19'], 'kind': 'complete',
         'clause': 'the nine kinds of AvailableValue are serialized with nine different variant tags (the real derived Serialize impl, run against a '
                   'tag-capturing serializer)', 'timeout': 600, 'tier': 'quick', 'inputs': [], 'replay': None, 'search': ['tags-search']},
    ],
}

# unit `lines_n` — bounded native stand-in for the parser level of C07 (RVParser::parse_from_file, recover_from_parse_error:
# generic FileReader, Peekable, closures over iterator adapters: out of reach of Verus; Kani cannot run the lexer). Never counted as proved.
UNIT = {
    'unit': 'lines_n', 'backend': 'native',
    'functions': [{'file': 'riscv_analysis/src/parser/parsing.rs', 'item': 'impl RVParser<T> :: fn parse_from_file'},
                  {'file': 'riscv_analysis/src/parser/parsing.rs', 'item': 'impl RVParser<T> :: fn recover_from_parse_error'}],
    'obligations': [
        {'id': 'lines_n.files', 'recipe': ['lines-search'], 'props': ['C07'], 'kind': 'bounded',
         'bound': '44529 files: every character prefix of each of the 104 statement forms of the decode table as a middle line and as the last line (with and without line terminator, LF and CR LF); every malformed line of a pool of 14 (missing / bad / extra operand, unknown mnemonic or directive, stray character, '
                  'unclosed string / char / parenthesis, literal out of range) between, before and after every pair of a pool of 9 good lines, '
                  'with and without trailing newline, LF and CR LF, with blank and comment lines; every pair of 14 data / section directives (values in and out of range, strings, unsupported directives) around good lines; plus 2295 base+include file pairs: a malformed line in each file, and a malformed line at every position of an included file of 1-3 lines (also as its unterminated last line) included from every position of a 5-line base file',
         'clause': 'every line holding more than blanks or a comment yields a node located on it or a parse error located on it; deleting a line that '
                   'produced an error leaves the nodes of every other line unchanged',
         'tier': 'quick'},
    ],
}

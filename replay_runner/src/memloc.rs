//! Unit `memloc`: native round trip of `MemoryLocation` through its public serde impls
//! (serde_json -> `Serialize::serialize` / `Deserialize::deserialize` -> `visit_str`).
//! Recipe: `memloc <id>` or `memloc <id>@<variant>,<csr>,<offset>` (the concrete point of a harness that has
//! no symbolic input); `inputs.variant` (0 StackOffset, 1 CsrRegister, 2 CsrRegisterValueOffset),
//! `inputs.csr`, `inputs.offset` from a recorded counterexample are tried as well, then a built-in grid.
//! exit 1: some round trip differs, fails or panics (or two different values share an encoding); 0 otherwise.
use riscv_analysis::analysis::MemoryLocation;
use riscv_analysis::parser::CsrImm;
use std::collections::BTreeMap;
use std::panic::{catch_unwind, AssertUnwindSafe};

fn mk(variant: i64, csr: u32, offset: i32) -> MemoryLocation {
    match variant {
        0 => MemoryLocation::StackOffset(offset),
        1 => MemoryLocation::CsrRegister(CsrImm::new(csr)),
        _ => MemoryLocation::CsrRegisterValueOffset(CsrImm::new(csr), offset),
    }
}

/// Ok(encoding) when decode(encode(m)) == m, Err(what went wrong) otherwise
fn roundtrip(m: &MemoryLocation) -> Result<String, String> {
    let enc = catch_unwind(AssertUnwindSafe(|| serde_json::to_string(m)))
        .map_err(|_| format!("{m:?}: serialize PANICKED"))?
        .map_err(|e| format!("{m:?}: serialize failed: {e}"))?;
    let dec = catch_unwind(AssertUnwindSafe(|| serde_json::from_str::<MemoryLocation>(&enc)))
        .map_err(|_| format!("{m:?}: emitted {enc}, deserialize PANICKED on it"))?
        .map_err(|e| format!("{m:?}: emitted {enc}, which cannot be loaded: {e}"))?;
    if &dec != m {
        return Err(format!("{m:?}: emitted {enc}, which loads as {dec:?}"));
    }
    Ok(enc)
}

pub fn run(id: &str, v: &serde_json::Value) -> i32 {
    let g = |k: &str| crate::geti(v, k);
    let mut bad = 0;
    let mut seen: BTreeMap<String, MemoryLocation> = BTreeMap::new();
    let mut try_one = |m: MemoryLocation, bad: &mut i32| match roundtrip(&m) {
        Ok(enc) => {
            if let Some(other) = seen.get(&enc) {
                if *other != m {
                    println!("{m:?} and {other:?} share the encoding {enc}");
                    *bad += 1;
                }
            }
            seen.insert(enc, m);
        }
        Err(e) => {
            println!("{e}");
            *bad += 1;
        }
    };
    // the concrete point named in the recipe
    let (id, point) = match id.split_once('@') { Some((a, b)) => (a, Some(b)), None => (id, None) };
    if let Some(p) = point {
        let f: Vec<i64> = p.split(',').filter_map(|x| x.trim().parse::<i64>().ok()).collect();
        if f.len() == 3 {
            try_one(mk(f[0], f[1] as u32, f[2] as i32), &mut bad);
        } else {
            println!("memloc/{id}: malformed point {p:?}");
            return 2;
        }
    }
    // the recorded input (variant from the record, else from the obligation id: so* / csro* / csr*)
    let variant = g("variant").unwrap_or(if id.starts_with("so") { 0 } else if id.starts_with("csro") { 2 } else { 1 });
    if g("variant").is_some() || g("csr").is_some() || g("offset").is_some() {
        try_one(mk(variant, g("csr").unwrap_or(0) as u32, g("offset").unwrap_or(0) as i32), &mut bad);
    }
    // built-in boundary grid
    let offs: [i32; 23] = [i32::MIN, i32::MIN + 1, -2_000_000_000, -1_000_000_000, -999_999_999, -65536, -10_000, -9_999,
        -2048, -100, -10, -9, -1, 0, 1, 9, 10, 99, 100, 2047, 9_999, 10_000, i32::MAX];
    let csrs: [u32; 12] = [0, 1, 9, 10, 99, 100, 0x300, 0xC00, 4095, 4096, 1_000_000_000, u32::MAX];
    for o in offs { try_one(mk(0, 0, o), &mut bad); }
    for o in -300..=300 { try_one(mk(0, 0, o), &mut bad); }
    for c in csrs { try_one(mk(1, c, 0), &mut bad); }
    for c in 0..=4096u32 { try_one(mk(1, c, 0), &mut bad); }
    for c in csrs { for o in offs { try_one(mk(2, c, o), &mut bad); } }
    // equal payloads in the three variants must stay apart
    for k in 0..=20 { for var in 0..3 { try_one(mk(var, k as u32, k), &mut bad); } }
    if bad == 0 {
        println!("memloc/{id}: {} memory locations reload as themselves and have pairwise different encodings", seen.len());
        0
    } else {
        println!("memloc/{id}: {bad} failing round trip(s)");
        1
    }
}

/// native witness for the `tags` unit: the tag each kind of AvailableValue gets in a JSON dump
pub fn tags_search() -> i32 {
    use riscv_analysis::analysis::AvailableValue;
    use riscv_analysis::parser::{LabelString, Register, Token, With};
    let l = || LabelString::new("L");
    let vals = vec![
        ("Constant", AvailableValue::Constant(1)), ("Address", AvailableValue::Address(With::new(l(), Token::default()))),
        ("Memory", AvailableValue::Memory(l(), 1)), ("RegisterWithScalar", AvailableValue::RegisterWithScalar(Register::X5, 1)),
        ("OriginalRegisterWithScalar", AvailableValue::OriginalRegisterWithScalar(Register::X5, 1)),
        ("MemoryAtRegister", AvailableValue::MemoryAtRegister(Register::X5, 1)),
        ("MemoryAtOriginalRegister", AvailableValue::MemoryAtOriginalRegister(Register::X5, 1)),
        ("ValueInCsr", AvailableValue::ValueInCsr(CsrImm::new(1))), ("MemoryAtCsr", AvailableValue::MemoryAtCsr(CsrImm::new(1), 1)),
    ];
    let tags: Vec<(String, String)> = vals.iter().map(|(n, v)| {
        let j = serde_json::to_value(v).expect("serializable");
        (n.to_string(), j.as_object().and_then(|o| o.keys().next().cloned()).unwrap_or_else(|| j.to_string()))
    }).collect();
    for i in 0..tags.len() { for j in i + 1..tags.len() {
        if tags[i].1 == tags[j].1 {
            println!("witness: AvailableValue::{} and AvailableValue::{} are both dumped with the tag {:?}", tags[i].0, tags[j].0, tags[i].1);
            return 1;
        }
    } }
    println!("the nine kinds of AvailableValue have nine different tags");
    0
}

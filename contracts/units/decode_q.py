# unit `decode_q` — the quick-tier part of unit `decode`: everything except the per-form meaning table of try_from
# (Type::from format table, operand readers, constructors; try_from itself for panic-freedom and termination only)
import copy, os, sys, importlib.util
_spec = importlib.util.spec_from_file_location('unit_decode_full', os.path.join(os.path.dirname(os.path.abspath(__file__)), 'decode.py'))
_mod = importlib.util.module_from_spec(_spec)
_spec.loader.exec_module(_mod)
UNIT = copy.deepcopy(_mod.UNIT)
UNIT['unit'] = 'decode_q'
UNIT.pop('tier', None)
UNIT['rlimit'] = 300
UNIT.pop('verus_timeout', None)
for it in UNIT['items']:
    if it.get('fn') == 'try_from':
        it['ensures'] = []
UNIT['obligations'] = [dict(o, id=o['id'].replace('decode.', 'decode_q.', 1)) for o in UNIT['obligations'] if not (o['fn'] == 'try_from' and o['label'] == 'table')]
UNIT.pop('known_finding_witnesses', None)   # the carve-out only matters for the table obligation (unit decode)

//! Bounded native check of the whole-structure half of C19 (public API only): the dump of an analysis result
//! (CfgWrapper::from(&Cfg) written as YAML) reloads to an equal structure and shows, node by node, exactly the edges,
//! labels, function annotations, liveness sets and value facts of the Cfg it was made from.
use riscv_analysis::cfg::{Cfg, CfgWrapper};
use riscv_analysis::parser::{HasIdentity, ParserNode, RVStringParser};
use riscv_analysis::passes::Manager;
use serde_yaml::Value;
use std::panic::{catch_unwind, AssertUnwindSafe};

fn sorted(v: Vec<usize>) -> Vec<usize> { let mut v = v; v.sort(); v.dedup(); v }

fn list(v: Option<&Value>) -> Vec<usize> {
    sorted(v.and_then(Value::as_sequence).map(|a| a.iter().filter_map(|x| x.as_u64().map(|n| n as usize)).collect()).unwrap_or_default())
}

/// the dumped form of one component, as a generic value (absent when empty, as the dump writes it)
fn comp<T: serde::Serialize>(x: &T, empty: bool) -> Option<Value> { if empty { None } else { serde_yaml::to_value(x).ok() } }

pub fn check_program(src: &str) -> Option<String> {
    let res = catch_unwind(AssertUnwindSafe(|| {
        let (nodes, errors) = RVStringParser::parse_from_text(src);
        if !errors.is_empty() { return Err(format!("program does not parse: {src:?}")); }
        Manager::gen_full_cfg(nodes).map_err(|_| "CFG construction failed".to_string())
    }));
    let cfg: Cfg = match res { Ok(Ok(c)) => c, Ok(Err(e)) => return Some(e), Err(_) => return Some(format!("analysis panicked on {src:?}")) };
    let wrapped = CfgWrapper::from(&cfg);
    let yaml = match serde_yaml::to_string(&wrapped) { Ok(y) => y, Err(e) => return Some(format!("the dump cannot be written: {e}; program: {src:?}")) };
    // (a) reloadable: the emitted text loads, and what was loaded holds everything that was written (writing it again gives
    // the same text; structural equality of CfgWrapper compares instructions by their in-memory key, which is not part of the dump)
    match serde_yaml::from_str::<CfgWrapper>(&yaml) {
        Ok(back) => match serde_yaml::to_string(&back) {
            Ok(again) => if again != yaml { return Some(format!("the reloaded dump, written again, differs from the dump that was loaded; program: {src:?}")); },
            Err(e) => return Some(format!("the reloaded dump cannot be written: {e}; program: {src:?}")),
        },
        Err(e) => return Some(format!("the emitted dump does not load: {e}; program: {src:?}")),
    }
    // (b) faithful: every component of every node of the Cfg is in the text
    let doc: Value = match serde_yaml::from_str(&yaml) { Ok(v) => v, Err(e) => return Some(format!("the dump is not YAML: {e}")) };
    let Some(dumped) = doc.as_sequence() else { return Some("the dump is not a sequence of nodes".to_string()) };
    let nodes: Vec<_> = cfg.iter().collect();
    if dumped.len() != nodes.len() { return Some(format!("the dump has {} nodes, the analysis result {}; program: {src:?}", dumped.len(), nodes.len())); }
    let pos = |id| nodes.iter().position(|n| n.id() == id);
    for (i, (n, d)) in nodes.iter().zip(dumped).enumerate() {
        let nexts = sorted(n.nexts().iter().filter_map(|x| pos(x.id())).collect());
        let prevs = sorted(n.prevs().iter().filter_map(|x| pos(x.id())).collect());
        if list(d.get("nexts")) != nexts { return Some(format!("node {i}: successors {nexts:?} in the analysis result, {:?} in the dump; program: {src:?}", list(d.get("nexts")))); }
        if list(d.get("prevs")) != prevs { return Some(format!("node {i}: predecessors {prevs:?} in the analysis result, {:?} in the dump; program: {src:?}", list(d.get("prevs")))); }
        // owning functions: the (entry, exit) pairs, not just the two lists
        let mut pairs: Vec<(usize, usize)> = n.functions().iter().filter_map(|f| Some((pos(f.entry().id())?, pos(f.exit().id())?))).collect();
        pairs.sort(); pairs.dedup();
        let raw = |key: &str| -> Vec<usize> { d.get(key).and_then(Value::as_sequence).map(|a| a.iter().filter_map(|x| x.as_u64().map(|n| n as usize)).collect()).unwrap_or_default() };
        let (de, dx) = (raw("func_entry"), raw("func_exit"));
        let mut dumped_pairs: Vec<(usize, usize)> = de.iter().copied().zip(dx.iter().copied()).collect();
        dumped_pairs.sort(); dumped_pairs.dedup();
        if de.len() != dx.len() || dumped_pairs != pairs {
            return Some(format!("node {i}: owning functions (entry, exit) are {pairs:?} in the analysis result, func_entry {de:?} / func_exit {dx:?} in the dump; program: {src:?}"));
        }
        // a handler entry is not an ordinary function entry
        if let ParserNode::FuncEntry(f) = n.node() {
            let shown = d.get("node").and_then(|x| match x { Value::Tagged(t) => t.value.get("is_interrupt_handler").and_then(Value::as_bool), other => other.get("is_interrupt_handler").and_then(Value::as_bool) }).unwrap_or(false);
            if shown != f.is_interrupt_handler {
                return Some(format!("node {i}: the function entry is{} an interrupt handler in the analysis result, the dump says {shown}; program: {src:?}", if f.is_interrupt_handler { "" } else { " not" }));
            }
        }
        let mut labels: Vec<String> = n.labels().iter().map(|l| l.get().to_string()).collect();
        labels.sort();
        let mut dl: Vec<String> = d.get("labels").and_then(Value::as_sequence).map(|a| a.iter().filter_map(|x| x.as_str().map(str::to_string)).collect()).unwrap_or_default();
        dl.sort();
        if labels != dl { return Some(format!("node {i}: labels {labels:?} in the analysis result, {dl:?} in the dump; program: {src:?}")); }
        let checks: [(&str, Option<Value>); 7] = [
            ("reg_values_in", comp(&n.reg_values_in(), n.reg_values_in().is_empty())),
            ("reg_values_out", comp(&n.reg_values_out(), n.reg_values_out().is_empty())),
            ("memory_values_in", comp(&n.memory_values_in(), n.memory_values_in().is_empty())),
            ("memory_values_out", comp(&n.memory_values_out(), n.memory_values_out().is_empty())),
            ("live_in", comp(&n.live_in(), n.live_in().is_empty())),
            ("live_out", comp(&n.live_out(), n.live_out().is_empty())),
            ("u_def", comp(&n.u_def(), n.u_def().is_empty())),
        ];
        for (key, want) in checks {
            // compare through the same generic form (YAML -> JSON value)
            let have = d.get(key).cloned();
            let want_norm = want.map(|w| serde_yaml::from_str::<Value>(&serde_yaml::to_string(&w).unwrap_or_default()).unwrap_or(Value::Null));   // through text, as the dump went
            if have != want_norm { return Some(format!("node {i}: {key} is {want_norm:?} in the analysis result, {have:?} in the dump; program: {src:?}")); }
        }
        // distinct facts stay distinct: no two entries of a map collapse into one entry of the text
        for (key, len) in [("reg_values_in", n.reg_values_in().len()), ("reg_values_out", n.reg_values_out().len()),
                           ("memory_values_in", n.memory_values_in().len()), ("memory_values_out", n.memory_values_out().len())] {
            let have = d.get(key).map_or(0, |m| m.as_mapping().map_or(m.as_sequence().map_or(1, Vec::len), serde_yaml::Mapping::len));
            if have != len { return Some(format!("node {i}: {key} has {len} facts in the analysis result, {have} entries in the dump; program: {src:?}")); }
        }
        let node_want = serde_yaml::to_value(n.node()).ok().map(|w| serde_yaml::from_str::<Value>(&serde_yaml::to_string(&w).unwrap_or_default()).unwrap_or(Value::Null));
        if d.get("node").cloned() != node_want { return Some(format!("node {i}: the instruction in the dump differs from the one in the analysis result; program: {src:?}")); }
    }
    None
}

const PROGRAMS: [&str; 16] = [
    // nodes about which nothing is known (empty fact maps): code after an unconditional jump, a loop after a call
    "main:\nli a0, 1\nj end\naddi x0, x0, 0\nend:\nli a7, 10\necall\n",
    "main:\njal f\nloop:\naddi sp, sp, -4\nsw a0, 0(sp)\nbnez a0, loop\nli a7, 10\necall\nf:\nli a0, 3\nret\n",
    "main:\nla t0, handler\ncsrrw zero, 5, t0\njal f\nli a7, 10\necall\nf:\nret\nhandler:\naddi t1, t1, 1\nuret\n",
    "main:\njal fn_b\njal fn_a\nli a7, 10\necall\nfn_a:\naddi a1, a0, 0\nj shared\nfn_b:\nbeqz a0, shared\nret\nshared:\naddi a1, a1, 1\nret\n",
    "spin:\nj spin\n",
    "li t0, 3\nwait:\nbne t0, zero, wait\nli a7, 10\necall\n",
    "main:\nli a0, 1\njal ra, f\nli a7, 10\necall\nf:\naddi sp, sp, -8\nsw s0, 0(sp)\nsw ra, 4(sp)\nli s0, 5\nlw s0, 0(sp)\nlw ra, 4(sp)\naddi sp, sp, 8\nret\n",
    "li t0, 0\nli t1, 10\nloop:\naddi t0, t0, 1\nblt t0, t1, loop\nmv a0, t0\nli a7, 1\necall\nli a7, 10\necall\n",
    "main:\nbeqz a0, direct\njal ra, f\nj done\ndirect:\njal ra, g\ndone:\nli a7, 10\necall\nf:\nli t0, 7\nsw t0, -4(sp)\ng:\naddi sp, sp, -4\nlw t1, 0(sp)\naddi a0, t1, 1\naddi sp, sp, 4\nret\n",
    "la t0, data\nlw t1, 0(t0)\nlw t2, 4(t0)\nadd a0, t1, t2\nli a7, 10\necall\n.data\ndata:\n.word 1, 2\n",
    "csrrw t0, 64, t1\ncsrrwi t2, 65, 3\ncsrr t3, 64\nli a7, 10\necall\n",
    "addi sp, sp, -16\nsw a0, 12(sp)\nsw a1, -2048(sp)\nli t0, -1\nsw t0, 2047(sp)\nlw t1, 12(sp)\naddi sp, sp, 16\nli a7, 10\necall\n",
    "a:\nb:\nc:\nnop\nj a\n",
    "main:\njal ra, f\njal ra, f\nli a7, 10\necall\nf:\nbeqz a0, one\nli a0, 2\nret\none:\nli a0, 1\nret\n",
    "lui t0, 0x12345\naddi t0, t0, 0x678\nmv t1, t0\nsub t2, t1, t0\nneg t3, t2\nli a7, 10\necall\n",
    "main:\nli s0, 1\nouter:\nli s1, 2\ninner:\naddi s1, s1, -1\nbnez s1, inner\naddi s0, s0, -1\nbnez s0, outer\nself:\nbeq s0, s0, self\nli a7, 10\necall\n",
];

pub fn search(v: &serde_json::Value) -> i32 {
    if let Some(src) = v.get("inputs").and_then(|i| i.get("program")).and_then(|s| s.as_str()) {
        return match check_program(src) { Some(w) => { println!("witness: {w}"); 1 } None => { println!("the dump of {src:?} is faithful and reloads"); 0 } };
    }
    // the passes iterate hash sets: each program is analysed several times
    for p in PROGRAMS { for _ in 0..8 { if let Some(w) = check_program(p) { println!("witness: {w}"); return 1; } } }
    println!("no unfaithful dump among {} programs (x 8 runs each; self-loops, nested loops, calls, functions entered at two labels, an interrupt handler, two functions sharing their tail, shared exits, nodes with empty fact maps, labels in a row, stack / CSR / data memory facts with negative and positive offsets)", PROGRAMS.len());
    0
}

# unit `misc` (U9) — small scalar helpers, Kani, complete
UNIT = {
    'unit': 'misc', 'backend': 'kani', 'crate': 'riscv_analysis',
    'weave': [{'file': 'riscv_analysis/src/cfg/ref_cell_replacement.rs', 'append': 'kani/misc_refcell.rs'},
              {'file': 'riscv_analysis/src/parser/position.rs', 'append': 'kani/misc_position.rs'}],
    'functions': [{'file': 'riscv_analysis/src/cfg/ref_cell_replacement.rs', 'item': 'impl RefCellReplacement<T> for RefCell<T> :: fn replace_if_changed'},
                  {'file': 'riscv_analysis/src/parser/position.rs', 'item': 'impl Position :: fn increment_column'},
                  {'file': 'riscv_analysis/src/parser/position.rs', 'item': 'impl Position :: fn decrement_to_beginning_of_line'}],
    'obligations': [
        {'id': 'misc.replace_if_changed', 'harness': 'cfg::ref_cell_replacement::verif_kani_refcell::replace_if_changed_contract', 'props': ['C06'], 'kind': 'complete',
         'clause': 'replace_if_changed(new) leaves `new` in the cell, returns exactly "old != new", a repeated call returns false; no panic on an unborrowed cell',
         'timeout': 300, 'tier': 'quick', 'inputs': [['old', 'i32'], ['new', 'i32']], 'replay': None},
        {'id': 'misc.position.moves', 'harness': 'parser::position::verif_kani_position::position_moves', 'props': ['C06', 'C09'], 'kind': 'complete',
         'clause': 'increment_column / decrement_to_beginning_of_line stay on the line, move the column and the raw offset together and do not '
                   'overflow for consistent positions (column, line <= raw offset < usize::MAX); the one-based accessors do not overflow',
         'timeout': 300, 'tier': 'quick', 'inputs': [['line', 'usize'], ['column', 'usize'], ['raw', 'usize']], 'replay': None},
    ],
}

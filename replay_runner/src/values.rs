//! Bounded native check of the value analysis as a whole (C01): straight-line programs are analysed through the
//! public pipeline (Manager::gen_full_cfg) and every claim of a kind named by the property (Constant, entry value
//! plus constant, stack slot holding such a value) attached AFTER each instruction is compared with an RV32IM
//! interpreter run from several initial register files.
use crate::ops::rv32;
use riscv_analysis::analysis::{AvailableValue, MemoryLocation};
use riscv_analysis::parser::{InstructionProperties, ParserNode, RVStringParser, Register};
use riscv_analysis::passes::Manager;
use std::collections::HashMap;
use std::panic::{catch_unwind, AssertUnwindSafe};

struct Machine { regs: [i32; 32], mem: HashMap<i32, u8>, salt: u32 }

impl Machine {
    fn r(&self, r: &Register) -> i32 { self.regs[r.to_num() as usize] }
    fn w(&mut self, r: &Register, v: i32) { if r.to_num() != 0 { self.regs[r.to_num() as usize] = v; } }
    fn load(&self, addr: i32, n: usize) -> Option<u32> {
        let mut v = 0u32;
        for i in 0..n {
            let a = addr.wrapping_add(i as i32);
            // memory the program never wrote holds an arbitrary (but fixed) byte
            let b = self.mem.get(&a).copied().unwrap_or_else(|| ((a as u32).wrapping_mul(2654435761).wrapping_add(self.salt) >> 13) as u8);
            v |= (b as u32) << (8 * i);
        }
        Some(v)
    }
    fn store(&mut self, addr: i32, v: u32, n: usize) { for i in 0..n { self.mem.insert(addr.wrapping_add(i as i32), (v >> (8 * i)) as u8); } }
    /// executes one node; false = instruction outside the interpreted subset (stop checking this program)
    fn step(&mut self, n: &ParserNode) -> bool {
        if matches!(n, ParserNode::Branch(_) | ParserNode::JumpLink(_) | ParserNode::JumpLinkR(_) | ParserNode::FuncEntry(_)) { return true; }   // control transfer is handled by the caller
        let lower = |s: String| s.to_lowercase();
        match n {
            ParserNode::Arith(x) => { let v = rv32(&lower(format!("{:?}", x.inst.get())), self.r(x.rs1.get()), self.r(x.rs2.get())); self.w(x.rd.get(), v); true }
            ParserNode::IArith(x) => {
                let name = lower(format!("{:?}", x.inst.get()));
                let imm = x.imm.get().value();
                let v = match name.as_str() {
                    "lui" => imm,
                    "auipc" => return false,
                    "sltiu" => rv32("sltu", self.r(x.rs1.get()), imm),
                    other => rv32(other.trim_end_matches('i'), self.r(x.rs1.get()), imm),
                };
                self.w(x.rd.get(), v); true
            }
            ParserNode::Store(x) => {
                let addr = self.r(x.rs1.get()).wrapping_add(x.imm.get().value());
                let n = match lower(format!("{:?}", x.inst.get())).as_str() { "sb" => 1, "sh" => 2, _ => 4 };
                let v = self.r(x.rs2.get()) as u32;
                self.store(addr, v, n); true
            }
            ParserNode::Load(x) => {
                let addr = self.r(x.rs1.get()).wrapping_add(x.imm.get().value());
                let name = lower(format!("{:?}", x.inst.get()));
                let n = match name.as_str() { "lb" | "lbu" => 1, "lh" | "lhu" => 2, _ => 4 };
                let Some(raw) = self.load(addr, n) else { return false; };   // reading memory the program never wrote
                let v = match name.as_str() { "lb" => raw as u8 as i8 as i32, "lh" => raw as u16 as i16 as i32, _ => raw as i32 };
                self.w(x.rd.get(), v); true
            }
            ParserNode::Label(_) | ParserNode::Directive(_) | ParserNode::ProgramEntry(_) => true,
            _ => false,
        }
    }
}

fn den(v: &AvailableValue, init: &[i32; 32]) -> Option<i32> {
    match v {
        AvailableValue::Constant(c) => Some(*c),
        AvailableValue::OriginalRegisterWithScalar(r, k) => Some(init[r.to_num() as usize].wrapping_add(*k)),
        _ => None,
    }
}

/// returns Some(description) if some claim is false on some execution
pub fn check_program(src: &str) -> Option<String> {
    let text = format!("{src}\nli a7, 10\necall\n");
    let res = catch_unwind(AssertUnwindSafe(|| {
        let (nodes, errors) = RVStringParser::parse_from_text(&text);
        if !errors.is_empty() { return Err(format!("program does not parse: {text:?}")); }
        Manager::gen_full_cfg(nodes).map_err(|_| "CFG construction failed".to_string())
    }));
    let cfg = match res { Ok(Ok(c)) => c, Ok(Err(e)) => return Some(e), Err(_) => return Some(format!("analysis panicked on {text:?}")) };
    for seed in 0..6u32 {
        let mut init = [0i32; 32];
        let mut s = 0x9E37_79B9u32.wrapping_mul(seed + 1);
        for k in 1..32 { s = s.wrapping_mul(1664525).wrapping_add(1013904223); init[k] = s as i32; }
        init[2] = 0x7ff0_0000u32 as i32 + (seed as i32) * 64;      // a plausible, aligned stack pointer
        init[10] = match seed { 0 => 0, 1 => 1, 2 => 3, 3 => -1, _ => init[10] };   // a0 drives the branches of the sample programs
        let mut m = Machine { regs: init, mem: HashMap::new(), salt: seed.wrapping_mul(97) };
        let nodes = cfg.nodes();
        // labels are attached to the instruction that follows them
        let label_at = |name: &str| nodes.iter().position(|x| x.labels().iter().any(|l| l.get().as_str() == name));
        let mut pc = 0usize;
        let mut steps = 0;
        // "original" values and stack offsets are relative to the entry of the enclosing function: one snapshot per activation
        let mut entry = init;
        let mut calls: Vec<(usize, [i32; 32], [i32; 32])> = Vec::new();   // return pc, caller's entry snapshot, registers at the call
        while pc < nodes.len() && steps < 400 {
            steps += 1;
            let node = &nodes[pc];
            let pn = node.node();
            if pn.is_ecall() { break; }
            if pn.is_instruction() {
                for (reg, val) in node.reg_values_in().iter() {
                    if let Some(want) = den(val, &entry) {
                        let have = m.r(reg);
                        if have != want {
                            return Some(format!("before `{}` the analyzer claims {reg} = {val} (= {want} when the entry registers are seed {seed}), the machine has {have}; program: {src:?}", pn.raw_text_safe()));
                        }
                    }
                }
                for (loc, val) in node.memory_values_in().iter() {
                    if let (MemoryLocation::StackOffset(o), Some(want)) = (loc, den(val, &entry)) {
                        match m.load(entry[2].wrapping_add(*o), 4) {
                            Some(have) if have as i32 == want => {}
                            other => return Some(format!("before `{}` the analyzer claims stack slot sp0{o:+} holds {val} (= {want}), the machine has {other:?}; program: {src:?}", pn.raw_text_safe())),
                        }
                    }
                }
            }
            // branch decision before the instruction's effects (branches write no register)
            let mut next = pc + 1;
            match &pn {
                ParserNode::Branch(x) => {
                    let (a, b) = (m.r(x.rs1.get()), m.r(x.rs2.get()));
                    let taken = match format!("{:?}", x.inst.get()).to_lowercase().as_str() {
                        "beq" => a == b, "bne" => a != b, "blt" => a < b, "bge" => a >= b,
                        "bltu" => (a as u32) < (b as u32), "bgeu" => (a as u32) >= (b as u32), _ => break,
                    };
                    if taken { match label_at(x.name.get().as_str()) { Some(t) => next = t, None => break } }
                }
                ParserNode::JumpLink(x) => {
                    let Some(t) = label_at(x.name.get().as_str()) else { break };
                    match x.rd.get().to_num() {
                        0 => next = t,
                        1 => {
                            // call: the callee is executed for real; it must itself respect the convention
                            if calls.len() >= 8 { break; }
                            calls.push((pc + 1, entry, m.regs));
                            m.regs[1] = 0x0040_0000 + 4 * (pc as i32 + 1);
                            next = t;
                        }
                        _ => break,
                    }
                }
                ParserNode::FuncEntry(_) => { entry = m.regs; }
                ParserNode::JumpLinkR(x) => {
                    // only `ret` (jalr x0, 0(ra)) is interpreted
                    if !(x.rd.get().to_num() == 0 && x.rs1.get().to_num() == 1 && x.imm.get().value() == 0) { break; }
                    // the property covers callees that respect the convention: sp and the saved registers are back at their entry values
                    match calls.pop() {
                        Some((ret_pc, saved, at_call)) => {
                            if [2usize, 8, 9, 18, 19, 20, 21, 22, 23, 24, 25, 26, 27].iter().any(|&k| m.regs[k] != at_call[k]) { break; }
                            next = ret_pc; entry = saved;
                        }
                        None => break,
                    }
                }
                _ => {}
            }
            let is_call = matches!(&pn, ParserNode::JumpLink(x) if x.rd.get().to_num() == 1);
            if !m.step(&pn) { break; }
            if std::env::var("VALUES_DEBUG").is_ok() { eprintln!("seed {seed} pc {pc} `{}` regs_out {} mem_out {}", pn.raw_text_safe(), node.reg_values_out(), node.memory_values_out()); }
            if pn.is_instruction() && !is_call && !pn.is_return() {
                for (reg, val) in node.reg_values_out().iter() {
                    if let Some(want) = den(val, &entry) {
                        let have = m.r(reg);
                        if have != want {
                            return Some(format!("after `{}` the analyzer claims {reg} = {val} (= {want} when the entry registers are seed {seed}), the machine has {have}; program: {src:?}", pn.raw_text_safe()));
                        }
                    }
                }
                for (loc, val) in node.memory_values_out().iter() {
                    if let (MemoryLocation::StackOffset(o), Some(want)) = (loc, den(val, &entry)) {
                        let addr = entry[2].wrapping_add(*o);
                        match m.load(addr, 4) {
                            Some(have) if have as i32 == want => {}
                            other => return Some(format!("after `{}` the analyzer claims stack slot sp0{o:+} holds {val} (= {want}), the machine has {other:?}; program: {src:?}", pn.raw_text_safe())),
                        }
                    }
                }
            }
            pc = next;
        }
    }
    None
}

trait RawTextSafe { fn raw_text_safe(&self) -> String; }
impl RawTextSafe for ParserNode {
    fn raw_text_safe(&self) -> String { use riscv_analysis::passes::DiagnosticLocation; self.raw_text() }
}

/// every sequence of `len` statements from a pool of stack / register statements inside an 8-byte frame
pub fn enumerate(len: usize, shape: &str, only_first: Option<usize>) -> i32 {
    // The analysis result of every program is a graph of reference-counted nodes that point at each other and is never freed.
    // For the longer sequences each first statement is therefore handed to a child process (a few at a time), whose memory
    // goes back to the system when it exits.
    if len >= 4 && only_first.is_none() {
        let exe = match std::env::current_exe() { Ok(e) => e, Err(e) => { println!("error: {e}"); return 2; } };
        let (mut n, pool_len) = (0u64, 21usize);
        let mut next = 0usize;
        let mut running: Vec<std::process::Child> = Vec::new();
        loop {
            while next < pool_len && running.len() < 12 {
                match std::process::Command::new(&exe).args(["values-enum", &len.to_string(), shape, &next.to_string()]).stdin(std::process::Stdio::null()).stdout(std::process::Stdio::piped()).spawn() {
                    Ok(c) => running.push(c), Err(e) => { println!("error: cannot start a worker: {e}"); return 2; } }
                next += 1;
            }
            if running.is_empty() { break; }
            let c = running.remove(0);
            let out = match c.wait_with_output() { Ok(o) => o, Err(e) => { println!("error: {e}"); return 2; } };
            let text = String::from_utf8_lossy(&out.stdout);
            match out.status.code() {
                Some(0) => { n += text.lines().find_map(|l| l.strip_prefix("count ")).and_then(|x| x.trim().parse::<u64>().ok()).unwrap_or(0); }
                Some(1) => { for mut r in running { let _ = r.kill(); } print!("{text}"); return 1; }
                other => { for mut r in running { let _ = r.kill(); } println!("error: a worker ended with {other:?}: {}", text.chars().take(300).collect::<String>()); return 2; }
            }
        }
        println!("no false claim among {n} programs (shape `{shape}`: all sequences of {len} statements from a pool of {pool_len}) x 6 initial register files");
        return 0;
    }
    let pool = ["sw zero, 0(sp)", "sw a0, 0(sp)", "sw t0, 0(sp)", "sw s0, 4(sp)", "sb a1, 0(sp)", "sh a1, 2(sp)", "sb zero, 5(sp)",
        "lw t1, 0(sp)", "lw s0, 4(sp)", "lb t2, 0(sp)", "lhu t2, 4(sp)", "li t0, 7", "mv t0, zero", "addi a0, a0, 1", "mv s0, t1", "mv t0, sp",
        "addi sp, sp, -4", "addi sp, sp, 4", "sub t0, t0, sp", "sw t0, -4(sp)", "lw t1, -4(sp)"];
    // one worker per first statement; the remaining len-1 positions are enumerated inside the worker
    let found = std::sync::Mutex::new(None::<String>);
    let total = std::sync::atomic::AtomicU64::new(0);
    std::thread::scope(|sc| {
        for first in 0..pool.len() {
            if only_first.map_or(false, |f| f != first) { continue; }
            let (found, total, pool) = (&found, &total, &pool);
            sc.spawn(move || {
                let mut idx = vec![0usize; len.saturating_sub(1)];
                loop {
                    if found.lock().unwrap().is_some() { return; }
                    let mut stmts: Vec<&str> = Vec::with_capacity(len);
                    if len > 0 { stmts.push(pool[first]); }
                    for &i in &idx { stmts.push(pool[i]); }
                    // the statements run inside a called function, so that the saved registers have entry-relative facts
                    let frame = "main:\njal ra, f\nli a7, 10\necall\nf:\naddi sp, sp, -8\nsw s0, 4(sp)\nsw s1, 0(sp)";
                    let mut p = match shape {
                        // a function that is entered at two labels: called as f (falls through into g) or as g, depending on a0
                        // the statements surround a call of a function that uses its own frame below the caller's sp
                        "call" => String::from("main:\njal ra, f\nli a7, 10\necall\ng:\naddi sp, sp, -8\nsw zero, 0(sp)\nsw zero, 4(sp)\nli t0, 99\nli t1, 98\naddi sp, sp, 8\nret\nf:\naddi sp, sp, -12\nsw ra, 8(sp)\nsw s0, 4(sp)\nsw s1, 0(sp)"),
                        "fall" => String::from("main:\nbeqz a0, direct\njal ra, f\nj done\ndirect:\njal ra, g\ndone:\nli a7, 10\necall\nf:\naddi sp, sp, -8"),
                        _ => String::from(frame),
                    };
                    for (k, st) in stmts.iter().enumerate() {
                        // fixed skeleton around the enumerated statements
                        match shape {
                            "branch" if k == 1 => p.push_str("\nbeqz a0, skip"),
                            "loop" if k == 0 => p.push_str("\nloop:"),
                            "while" if k == 0 => p.push_str("\nloop:\nbeqz a0, done"),
                            "fall" if k == 1 => p.push_str("\naddi sp, sp, 8\ng:\naddi sp, sp, -8"),
                            "call" if k == 1 => p.push_str("\njal ra, g"),
                            _ => {}
                        }
                        if k + 1 == len && len >= 2 {
                            match shape {
                                "branch" => p.push_str("\nskip:"),
                                "loop" => p.push_str("\naddi a0, a0, -1\nbnez a0, loop"),
                                "while" => p.push_str("\naddi a0, a0, -1\nj loop\ndone:"),
                                _ => {}
                            }
                        }
                        p.push('\n'); p.push_str(st);
                    }
                    p.push_str(match shape { "fall" => "\naddi sp, sp, 8\nret", "call" => "\nlw ra, 8(sp)\naddi sp, sp, 12\nret", _ => "\nret" });
                    total.fetch_add(1, std::sync::atomic::Ordering::Relaxed);
                    if let Some(w) = check_program(&p) { let mut f = found.lock().unwrap(); if f.is_none() { *f = Some(w); } return; }
                    let mut k = 0;
                    loop { if k == idx.len() { return; } idx[k] += 1; if idx[k] < pool.len() { break; } idx[k] = 0; k += 1; }
                }
            });
        }
    });
    if let Some(w) = found.into_inner().unwrap() { println!("witness: {w}"); return 1; }
    if only_first.is_some() { println!("count {}", total.into_inner()); return 0; }
    println!("no false claim among {} programs (shape `{shape}`: all sequences of {len} statements from a pool of {}) x 6 initial register files", total.into_inner(), pool.len());
    0
}

pub fn search(v: &serde_json::Value) -> i32 {
    if let Some(src) = v.get("inputs").and_then(|i| i.get("program")).and_then(|s| s.as_str()) {
        return match check_program(src) { Some(w) => { println!("witness: {w}"); 1 } None => { println!("no false claim on {src:?}"); 0 } };
    }
    let grid = [0i32, 1, -1, 2, 31, 32, 33, -8, 7, i32::MIN, i32::MAX, 0x7fff, -0x8000, 0x10000];
    let rops = ["add", "sub", "and", "or", "xor", "sll", "srl", "sra", "slt", "sltu", "mul", "mulh", "mulhsu", "mulhu", "div", "divu", "rem", "remu"];
    let iops = ["addi", "andi", "ori", "xori", "slti", "sltiu", "slli", "srli", "srai"];
    let mut n = 0u64;
    let mut run = |p: String| -> bool { n += 1; if let Some(w) = check_program(&p) { println!("witness: {w}"); true } else { false } };
    for op in rops { for a in grid { for b in grid {
        if run(format!("li t0, {a}\nli t1, {b}\n{op} t2, t0, t1\n{op} t3, t1, t0\n{op} t4, t0, x0\n{op} t5, x0, t1\n{op} t6, x0, x0")) { return 1; }
    } } }
    for op in iops { for a in grid { for b in [0i32, 1, -1, 5, 31, 2047, -2048] {
        let b = if op.starts_with('s') && op.len() == 4 && op != "slti" { b & 31 } else { b };
        if run(format!("li t0, {a}\n{op} t2, t0, {b}\n{op} t3, x0, {b}\n{op} x0, t0, {b}")) { return 1; }
    } } }
    // stack pointer arithmetic, entry-relative values, save/restore through the stack
    let fixed = [
        "addi sp, sp, -16\naddi t0, sp, 8\nli t1, 16\nsub t2, t1, sp\nsub t3, sp, t1\nadd t4, t1, sp\nadd t5, sp, t1\naddi sp, sp, 16",
        "addi sp, sp, -16\nsw ra, 12(sp)\nsw s0, 8(sp)\nli s0, 5\naddi s0, s0, 1\nlw s0, 8(sp)\nlw ra, 12(sp)\naddi sp, sp, 16",
        "addi sp, sp, -8\nsw t0, 4(sp)\nli t0, 5\nlw t1, 4(sp)\naddi sp, sp, 8",
        "addi sp, sp, -8\nli t0, 0x12345678\nsw t0, 0(sp)\nsb x0, 0(sp)\nlw t1, 0(sp)\nlb t2, 0(sp)\nlh t3, 0(sp)\naddi sp, sp, 8",
        "addi sp, sp, -8\nsw s1, 0(sp)\nsb t0, 0(sp)\nlw s1, 0(sp)\naddi sp, sp, 8",
        "mv t0, s0\naddi t0, t0, 4\nsub t1, t0, s0\nadd t2, s0, x0\nneg t3, s0\nli t4, 3\nsub t5, t4, s0",
        "li t0, 5\nmv t1, t0\nli t0, 6\nadd t2, t1, t0\nnot t3, t0\nseqz t4, t0\nsnez t5, t0\nsltz t6, t0",
        "lui t0, 0xFFFFF\naddi t0, t0, -1\nlui t1, 1\nsrai t2, t0, 4\nsrli t3, t0, 4\nslli t4, t1, 19\nslli t5, t4, 1",
        "addi sp, sp, 16\nlw t0, 2147483647(sp)\naddi sp, sp, -16",
        "addi sp, sp, -16\nlw t0, -2147483648(sp)\nsw t0, -2147483648(sp)\naddi sp, sp, 16",
        "li t0, 2147483647\naddi sp, sp, -8\nsw t0, 0(sp)\naddi t0, t0, 1\nmv s0, sp\naddi s0, s0, 2047\naddi sp, sp, 8",
        "addi sp, sp, -16\naddi t0, sp, 8\nadd t2, t0, sp\nsub t3, t0, sp\nadd t4, sp, sp\nsub t5, sp, sp\nsub t6, sp, t0\naddi sp, sp, 16",
        "mv t0, s0\naddi t1, s0, 4\nadd t2, t0, t1\nsub t3, t1, t0\nadd t4, s0, s0\nsub t5, s0, s0",
        "addi sp, sp, -4\nbeq a0, zero, skip\nli t0, 7\nsw t0, 0(sp)\nskip:\nlw t1, 0(sp)\naddi sp, sp, 4",
        "beq a0, zero, else\nli t0, 1\nj end\nelse:\nli t0, 2\nend:\nadd t1, t0, t0\nli t2, 5",
        "li t0, 1\nbeq a0, zero, end\nli t0, 1\nend:\naddi t1, t0, 1",
        "addi sp, sp, -8\nsw ra, 4(sp)\nbnez a0, other\nsw s0, 0(sp)\nj join\nother:\nsw s1, 0(sp)\njoin:\nlw t0, 0(sp)\nlw ra, 4(sp)\naddi sp, sp, 8",
        "li t0, 0\nli t1, 3\nloop:\naddi t0, t0, 1\nblt t0, t1, loop\nmv t2, t0",
        "addi sp, sp, -16\nli t0, 4\nloop:\naddi sp, sp, -4\naddi t0, t0, -1\nbnez t0, loop\nmv t1, sp",
        "main:\nli s0, 5\nli t0, 6\nli a0, 7\njal ra, f\nadd t1, s0, x0\nadd t2, t0, x0\nadd t3, a0, x0\nli a7, 10\necall\nf:\naddi sp, sp, -4\nsw s0, 0(sp)\nli s0, 9\nli t0, 1\nli a0, 2\nlw s0, 0(sp)\naddi sp, sp, 4\nret",
        "main:\naddi sp, sp, -8\nsw ra, 4(sp)\nli t0, 3\nsw t0, 0(sp)\njal ra, g\nlw t1, 0(sp)\nlw ra, 4(sp)\naddi sp, sp, 8\nli a7, 10\necall\ng:\naddi sp, sp, -4\nsw s1, 0(sp)\naddi s1, a0, 1\nmv a0, s1\nlw s1, 0(sp)\naddi sp, sp, 4\nret",
        "main:\nli a0, 2\njal ra, h\nmv t0, a0\nli a0, 0\njal ra, h\nmv t1, a0\nli a7, 10\necall\nh:\nbeqz a0, zero_case\nli a0, 10\nret\nzero_case:\nli a0, 20\nret",
        "main:\nli s2, 1\nli t0, 0\nli t1, 3\nloop:\nmv a0, t0\njal ra, k\naddi s2, s2, 1\nli t1, 3\naddi t0, a0, 1\nblt t0, t1, loop\nmv t2, s2\nli a7, 10\necall\nk:\nret",
        "addi sp, sp, -4\nsw zero, 0(sp)\nsw a0, 0(sp)\nlw t1, 0(sp)\naddi sp, sp, 4",
        // a slot that names a register whose own fact names another register: the chain must not be resolved after that register changed
        "addi sp, sp, -8\nsw a0, 0(sp)\nlw t1, 0(sp)\nli a0, 5\nsw t1, 4(sp)\nlw t2, 4(sp)\naddi sp, sp, 8",
        "main:\njal f\nli a7, 10\necall\nf:\naddi sp, sp, -8\nsw s1, 0(sp)\nlw t1, 0(sp)\naddi a0, s1, 0\nsw t1, 4(sp)\nli s1, 0\nlw s1, 4(sp)\naddi sp, sp, 8\nret",
        // a slot below sp does not survive a call of a function that uses its own frame
        "main:\nli t0, 5\nsw t0, -4(sp)\njal f\nlw t1, -4(sp)\nli a7, 10\necall\nf:\naddi sp, sp, -4\nsw zero, 0(sp)\naddi sp, sp, 4\nret",
        // what holds on a path falling into a function entry does not hold for a caller (gp is neither saved nor clobbered by convention)
        "main:\nli gp, 7\nli a0, 1\nbeqz a0, pre\njal f\nli a7, 10\necall\npre:\nli gp, 1\nf:\naddi a1, gp, 0\nret",
        "main:\nbeqz a0, direct\njal ra, f\nj done\ndirect:\njal ra, g\ndone:\nli a7, 10\necall\nf:\nli t0, 7\nsw t0, -4(sp)\ng:\naddi sp, sp, -4\nlw t1, 0(sp)\naddi a0, t1, 1\naddi sp, sp, 4\nret",
        "main:\njal ra, f\nli a7, 10\necall\nf:\naddi sp, sp, -4\nli t0, 7\nsw t0, 0(sp)\nloop:\nlw t1, 0(sp)\nsw a0, 0(sp)\naddi a0, a0, -1\nbnez a0, loop\naddi sp, sp, 4\nret",
        "main:\njal ra, f\nli a7, 10\necall\nf:\naddi sp, sp, -4\nsw s0, 0(sp)\nloop:\nbeqz a0, done\nsw a0, 0(sp)\naddi a0, a0, -1\nj loop\ndone:\nlw s0, 0(sp)\naddi sp, sp, 4\nret",
        "li t0, -2147483648\nli t1, -1\ndiv t2, t0, t1\nrem t3, t0, t1\ndiv t4, t0, x0\nremu t5, t0, x0\nmulhsu t6, t1, t1",
    ];
    for p in fixed { if run(p.to_string()) { return 1; } }
    println!("no false claim among {n} programs x 6 initial register files");
    0
}

# unit `ranges_n` — bounded native stand-in for the parser- and lint-level clauses of C09 (the decoder's interplay with get_any inside
# the 770-line try_from, and which operand each lint attaches to its message: the lints run over the Rc graph, out of reach of
# Verus and Kani). Public API only. Never counted as proved.
UNIT = {
    'unit': 'ranges_n', 'backend': 'native',
    'functions': [{'file': 'riscv_analysis/src/parser/parsing.rs', 'item': 'impl TryFrom<&mut Peekable<Lexer>> for ParserNode :: fn try_from'},
                  {'file': 'riscv_analysis/src/passes/lint_error.rs', 'item': 'impl DiagnosticLocation for LintError :: fn range'}],
    'obligations': [
        {'id': 'ranges_n.statements', 'recipe': ['getany-search'], 'props': ['C09'], 'kind': 'bounded', 'timeout': 600,
         'bound': '222 combinations: 37 statements (every operand form incl. those whose decoding looks at the token after the statement: `jalr t0`, '
                  '`jalr t0, t1, 4`, `lw a0, 12`, `sw a1, 12, t0`; data directives with value lists) x 6 layouts (first line, after blanks, after a comment '
                  'and a tab with a trailing comment, after a label on the same line, after blank lines, last line without newline)',
         'clause': 'the range of the node designates exactly the statement, mnemonic through last operand, on one line',
         'tier': 'quick'},
        {'id': 'ranges_n.lints', 'recipe': ['loc-search'], 'props': ['C09'], 'kind': 'bounded', 'timeout': 600,
         'bound': '69 program layouts (the 23 programs of unit symm_n, plain, with a header, with a comment after every statement); a program in which every instruction of a region gets a diagnostic (one of them rewritten by a pass); three two-file inputs with undefined / duplicate labels, 8 runs each',
         'clause': 'every diagnostic lies on one line inside the file; a use-type diagnostic (use after call, use before assignment) designates a register '
                   'the instruction reads, a definition-type diagnostic (unused value, lost / overwritten saved register, write to zero) the register it writes; a diagnostic that names labels designates one of them, in the file it names; a diagnostic given for every instruction of a region lands once on each',
         'tier': 'quick'},
    ],
}

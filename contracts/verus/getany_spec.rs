/// opaque stand-ins (copied / compared / passed through, never inspected by get_any)
#[derive(Clone, Copy, PartialEq, Eq, Structural)]
pub struct Uuid { pub v: u128 }
#[derive(Clone)]
pub struct ParserNode { pub v: u8 }
#[derive(Clone)]
pub struct ExpectedType { pub v: u8 }
#[derive(Clone)]
pub struct StringLexError { pub v: u8 }
pub struct Lexer { pub v: u8 }

/// std::iter::Peekable<Lexer>, modelled as the sequence of items the lexer will still produce (ASSUMED contract of a
/// std type; the lexer unit proves that this sequence exists: Lexer::next terminates and makes progress).
pub struct Peekable<T> { pub inner: T }
impl Peekable<Lexer> {
    pub uninterp spec fn remaining(&self) -> Seq<Result<Token, LexError>>;
    #[verifier::external_body]
    pub fn next(&mut self) -> (r: Option<Result<Token, LexError>>)
        ensures
            match r {
                Some(x) => old(self).remaining().len() > 0 && x == old(self).remaining()[0] && final(self).remaining() == old(self).remaining().skip(1),
                None => old(self).remaining().len() == 0 && final(self).remaining() == old(self).remaining(),
            },
    { unimplemented!() }
}

/// get_any hands out exactly the next item of the stream (an error at its end) and consumes it
/// at the end of the stream: plain UnexpectedEOF between statements, an error located on the statement read so far
/// when one has been started (so that a truncated final statement is reported, C07)
pub closed spec fn eof_error(old_rt: RawToken, r: Result<Token, LexError>) -> bool {
    match r {
        Err(LexError::UnexpectedEOF) => is_default_raw(old_rt),
        Err(LexError::UnexpectedError(t)) => !is_default_raw(old_rt) && t.raw_token.pos == old_rt.pos && t.raw_token.file == old_rt.file,
        _ => false,
    }
}
pub open spec fn took_next(before: Seq<Result<Token, LexError>>, after: Seq<Result<Token, LexError>>, r: Result<Token, LexError>) -> bool {
    if before.len() == 0 {
        r is Err && after == before
    } else {
        r == before[0] && after == before.skip(1)
    }
}

impl Position {
    pub closed spec fn s_raw(self) -> usize { self.raw_index }
}
impl Range {
    pub closed spec fn s_start(self) -> Position { self.start }
    pub closed spec fn s_end(self) -> Position { self.end }
}
impl RawToken {
    pub closed spec fn s_pos(self) -> Range { self.pos }
    pub closed spec fn s_file(self) -> Uuid { self.file }
    pub closed spec fn s_text(self) -> Seq<char> { self.text@ }
}
impl Token {
    pub closed spec fn s_raw(self) -> RawToken { self.raw_token }
    pub closed spec fn s_type(self) -> TokenType { self.token_type }
}

// ---- models of derives on RawToken / Range / Token (trusted: derive(Clone), derive(PartialEq), derive(Default)
// ---- are field-wise; Verus gives derived impls on non-Copy types no specification) ----
impl Clone for Range {
    fn clone(&self) -> (r: Self) ensures r == *self { Range { start: self.start, end: self.end } }
}
impl Clone for RawToken {
    #[verifier::external_body]
    fn clone(&self) -> (r: Self) ensures r == *self { unimplemented!() }
}
impl Clone for Token {
    #[verifier::external_body]
    fn clone(&self) -> (r: Self) ensures r == *self { unimplemented!() }
}
pub open spec fn nil_uuid() -> Uuid { Uuid { v: 0 } }
pub closed spec fn is_default_raw(t: RawToken) -> bool {
    t.text@ =~= Seq::<char>::empty() && t.file == nil_uuid()
        && t.pos.start.line == 0 && t.pos.start.column == 0 && t.pos.start.raw_index == 0
        && t.pos.end.line == 0 && t.pos.end.column == 0 && t.pos.end.raw_index == 0
}
impl Default for RawToken {
    #[verifier::external_body]
    fn default() -> (r: Self) ensures is_default_raw(r) { unimplemented!() }
}
impl PartialEqSpecImpl for RawToken {
    open spec fn obeys_eq_spec() -> bool { true }
    closed spec fn eq_spec(&self, other: &RawToken) -> bool {
        self.text@ =~= other.text@ && self.pos == other.pos && self.file == other.file
    }
}
impl PartialEq for RawToken {
    #[verifier::external_body]
    fn eq(&self, other: &RawToken) -> bool { unimplemented!() }
}

/// From<Token> for RawToken: the real body (token.rs) is extracted and checked against this spec
impl FromSpecImpl<Token> for RawToken {
    open spec fn obeys_from_spec() -> bool { true }
    closed spec fn from_spec(t: Token) -> RawToken { t.raw_token }
}

/// `format!("{} {}", a, b)` (rewrite R8): formatting machinery is outside Verus; the accumulated raw TEXT is
/// not part of the contract (only the range is), so the result is left unspecified.
#[verifier::external_body]
pub fn verif_format_pair(a: String, b: String) -> String { unimplemented!() }

/// What get_any must do to the accumulated raw token when it hands out `t` (C09 at instruction level):
/// the first token starts the range, every later token only moves its end; a line terminator or a comment is not part
/// of any statement and leaves the range alone (so a statement's range never runs onto the end of its line).
pub closed spec fn accumulated(old_rt: RawToken, new_rt: RawToken, t: Token) -> bool {
    if t.token_type is Newline || t.token_type is Comment {
        new_rt == old_rt
    } else if is_default_raw(old_rt) {
        new_rt == t.raw_token
    } else {
        new_rt.pos.start == old_rt.pos.start && new_rt.pos.end == t.raw_token.pos.end && new_rt.file == old_rt.file
    }
}

# unit `values_n` — bounded native stand-in for the value analysis as a whole (rule_* rewrites over HashMap with closures,
# AvailableValuePass::run over the Rc graph: out of reach of Verus and Kani). Straight-line programs only. Never counted as proved.
UNIT = {
    'unit': 'values_n', 'backend': 'native',
    'functions': [{'file': 'riscv_analysis/src/analysis/available.rs', 'item': 'fn rule_perform_math_ops'},
                  {'file': 'riscv_analysis/src/analysis/available.rs', 'item': 'fn rule_known_values_to_stack'},
                  {'file': 'riscv_analysis/src/analysis/available.rs', 'item': 'fn rule_value_from_stack'},
                  {'file': 'riscv_analysis/src/analysis/available.rs', 'item': 'fn rule_zero_to_const'},
                  {'file': 'riscv_analysis/src/analysis/available.rs', 'item': 'fn rule_expand_address_for_load'}],
    'obligations': [
        {'id': 'values_n.claims', 'recipe': ['values-search'], 'props': ['C01', 'C06'], 'kind': 'bounded',
         'bound': '4442 programs x 6 initial register files: every R-type operator on a 14x14 operand grid in five operand shapes incl. x0; every I-type '
                  'operator; 33 hand-written programs with sp arithmetic, save/restore, sub-word and overlapping stores, extreme offsets, forward branches '
                  'and joins, loops, calls to convention-respecting functions (executed for real, one entry snapshot per activation; execution stops at a return that leaves sp or a saved register changed), a function entered at two labels, a slot below sp across a call, a fact about gp on a path falling into a function entry',
         'clause': 'every Constant / entry-value-plus-constant claim attached before or after an executed instruction, and every stack-slot claim of such a '
                   'value, equals what an RV32IM interpreter computes; the analysis never panics',
         'tier': 'quick'},
    ] + [
        {'id': 'values_n.enum%d_%s' % (n, shape), 'recipe': ['values-enum', str(n), shape], 'props': ['C01'], 'kind': 'bounded', 'timeout': 1500,
         'bound': 'all %d sequences of %d statements from a pool of 21 (word / half / byte stores of zero, argument, temporary and saved registers into two '
                  'slots and one word below sp, loads of each width, li / mv / addi, mv from zero and from sp, sp adjustments, sub from sp) inside a called function with a fixed 8-byte frame holding s0 and s1%s; '
                  'x 6 initial register files' % (21 ** n, n, {'straight': '', 'branch': ', with a forward branch over the middle statements',
                                                              'loop': ', all but the last in a do-while loop counted by a0 (1, 3 and many iterations, 400-step fuel)',
                                                              'while': ', all but the last in a while loop counted by a0 (0, 1, 3 and many iterations)',
                                                              'fall': ', in a function entered at two labels (called as f, which falls through into g, or as g directly, depending on a0)',
                                                              'call': ', around a call of a function that uses a frame of its own below the caller\'s sp and clobbers temporaries'}[shape]),
         'clause': 'every Constant / entry-value-plus-constant claim attached before or after an executed instruction, and every stack-slot claim of such a '
                   'value, equals what an RV32IM interpreter computes; the analysis never panics',
         'tier': tier}
        for (n, tier) in ((3, 'quick'), (4, 'thorough')) for shape in ('straight', 'branch', 'loop', 'while', 'fall', 'call')
    ],
}

// ---- woven by /verif (unit `excerpt`); compiled only under cfg(kani) ----
// C18 (source-excerpt clause) + C06 for `PrettyPrint::format_region(text, line, start, end)`.
//
// Contract (from the property: "each rendered source excerpt shows the line the diagnostic refers to
// with the marker under the reported columns"), for a one-line `text` (no '\n') with
//      first_non_ws <= start <= end < number of chars of text
// (first_non_ws = char index of the first non-blank character; the diagnostic lies on a token):
//   * no panic;
//   * exactly three lines, each terminated by '\n':   "{spc} |"
//                                                     " {line+1} | {text.trim()}"
//                                                     "{spc} | {blanks}{carets}"
//     where spc = (decimal width of line+1) + 1 spaces,
//           carets = exactly end-start+1 times '^', nothing after them,
//           blanks = exactly start-first_non_ws characters, all whitespace: the k-th one is the k-th
//                    character of the shown (left-trimmed) line if that is a blank (so tabs keep their
//                    width), else ' '   ==> the marker starts under character `start` of the line.
// `reference()` renders exactly that by hand (no std::fmt, byte pushes only) and the harness asserts
// `format_region(..) == reference(..)`.
//
// std functions replaced (same observable behaviour; they only build panic messages, or only differ
// in the initial capacity of the result String):
//   core::result::unwrap_failed, <TryFromIntError as Debug>::fmt, core::str::slice_error_fail -> plain panic
//   alloc::fmt::format -> String::with_capacity(96) + the real `write_fmt` (instead of estimated_capacity())
// (see contracts/kani/memloc_harness.rs for why CBMC does not terminate without them).
#[cfg(kani)]
mod verif_kani_excerpt {
    use super::PrettyPrint;

    fn unwrap_failed_plain(_msg: &str, _e: &dyn core::fmt::Debug) -> ! {
        panic!("Result::unwrap()/expect() on an Err value inside std")
    }
    fn no_debug_try_from_int(_x: &core::num::TryFromIntError, _f: &mut core::fmt::Formatter<'_>) -> core::fmt::Result {
        panic!("Debug formatting of TryFromIntError reached")
    }
    fn slice_error_fail_plain(_s: &str, _begin: usize, _end: usize) -> ! {
        panic!("str slice index out of range or not on a char boundary")
    }
    fn format_cap96(args: core::fmt::Arguments<'_>) -> String {
        use core::fmt::Write;
        let mut out = String::with_capacity(96);
        match out.write_fmt(args) {
            Ok(()) => out,
            Err(_) => panic!("a formatting trait implementation returned an error"),
        }
    }

    /// model of `str::repeat` for harnesses with a SYMBOLIC repeat count only (CBMC 6.11 dies with SIGSEGV
    /// in the real doubling loop of `<[u8]>::repeat` when the count is symbolic): n-fold `push_str`
    fn repeat_model(s: &str, n: usize) -> String {
        let mut out = String::with_capacity(32);
        let mut k = 0;
        while k < n { out.push_str(s); k += 1; }
        out
    }

    macro_rules! h {
        ($(#[$doc:meta])* $name:ident, $unwind:literal, model_repeat, $body:block) => {
            h!($(#[$doc])* #[kani::stub(str::repeat, repeat_model)] $name, $unwind, $body);
        };
        ($(#[$doc:meta])* $name:ident, $unwind:literal, $body:block) => {
            $(#[$doc])*
            #[kani::proof]
            #[kani::unwind($unwind)]
            #[kani::stub(core::result::unwrap_failed, unwrap_failed_plain)]
            #[kani::stub(core::str::slice_error_fail, slice_error_fail_plain)]
            #[kani::stub(<core::num::TryFromIntError as core::fmt::Debug>::fmt, no_debug_try_from_int)]
            #[kani::stub(alloc::fmt::format, format_cap96)]
            fn $name() $body
        };
    }

    /// the reference rendering of the contract (see the file header)
    fn reference(chars: &[char], line: usize, start: usize, end: usize) -> String {
        fn dec(out: &mut String, mut n: usize) -> usize {
            let mut buf = [0u8; 20];
            let mut k = 20;
            loop {
                k -= 1;
                buf[k] = b'0' + (n % 10) as u8;
                n /= 10;
                if n == 0 { break; }
            }
            let width = 20 - k;
            while k < 20 { out.push(buf[k] as char); k += 1; }
            width
        }
        let n = chars.len();
        let mut first = 0;
        while first < n && chars[first].is_whitespace() { first += 1; }
        let mut last = n; // one past the last non-blank
        while last > first && chars[last - 1].is_whitespace() { last -= 1; }
        let mut num = String::new();
        let width = dec(&mut num, line + 1);
        let mut out = String::with_capacity(96);
        // line 1
        let mut k = 0;
        while k < width + 1 { out.push(' '); k += 1; }
        out.push_str(" |\n ");
        // line 2
        out.push_str(&num);
        out.push_str(" | ");
        let mut k = first;
        while k < last { out.push(chars[k]); k += 1; }
        out.push('\n');
        // line 3
        let mut k = 0;
        while k < width + 1 { out.push(' '); k += 1; }
        out.push_str(" | ");
        let mut k = first;
        while k < start {
            out.push(if k < n && chars[k].is_whitespace() { chars[k] } else { ' ' });
            k += 1;
        }
        let mut k = start;
        while k <= end { out.push('^'); k += 1; }
        out.push('\n');
        out
    }

    fn first_non_ws(chars: &[char]) -> usize {
        let mut first = 0;
        while first < chars.len() && chars[first].is_whitespace() { first += 1; }
        first
    }

    /// byte-wise equality without a loop (64 unrolled comparisons), so that the harness-wide unwind bound
    /// need not cover the length of the rendered excerpt
    fn same(g: &[u8], w: &[u8]) -> bool {
        macro_rules! at { ($($i:literal)*) => { $( if g.get($i) != w.get($i) { return false; } )* } }
        if g.len() != w.len() || g.len() > 64 { return false; }
        at!(0 1 2 3 4 5 6 7 8 9 10 11 12 13 14 15 16 17 18 19 20 21 22 23 24 25 26 27 28 29 30 31
            32 33 34 35 36 37 38 39 40 41 42 43 44 45 46 47 48 49 50 51 52 53 54 55 56 57 58 59 60 61 62 63);
        true
    }

    /// one contract instance on a concrete/symbolic char sequence
    fn check(chars: &[char], line: usize, start: usize, end: usize) { check_with(chars, line, start, end, false) }

    /// `all_ascii` must only be set when every element of `chars` is ASCII
    fn check_with(chars: &[char], line: usize, start: usize, end: usize, all_ascii: bool) {
        let mut text = String::with_capacity(32);
        let mut k = 0;
        while k < chars.len() {
            let c = chars[k];
            if all_ascii {
                // same as `text.push(c)`, but the length of `text` stays a constant for CBMC
                assert!(c.is_ascii());
                unsafe { text.as_mut_vec().push(c as u8); }
            } else {
                text.push(c);
            }
            k += 1;
        }
        let got = PrettyPrint::format_region(&text, line, start, end);
        let want = reference(chars, line, start, end);
        assert!(same(got.as_bytes(), want.as_bytes()),
                "the excerpt is not the referred line with the marker under the reported columns");
    }

    /// alphabet: 0 ' ', 1 '\t', 2 'a', 3 U+3000 IDEOGRAPHIC SPACE (3 bytes, White_Space), 4 U+00A0 NO-BREAK SPACE (2 bytes)
    fn pick(k: u8) -> char {
        match k { 0 => ' ', 1 => '\t', 2 => 'a', 3 => '\u{3000}', _ => '\u{a0}' }
    }

    /// symbolic text of exactly N chars over the first `alpha` letters of the alphabet, symbolic columns
    /// within the precondition, concrete line number (a symbolic one makes `" ".repeat(n_spc)` symbolic and
    /// CBMC 6.11 crashes with SIGSEGV while unwinding `<[u8]>::repeat`)
    fn symbolic<const N: usize>(alpha: u8, line: usize) {
        let mut chars = [' '; N];
        let mut k = 0;
        while k < N {
            let c: u8 = kani::any();
            kani::assume(c < alpha);
            chars[k] = pick(c);
            k += 1;
        }
        let start: usize = kani::any();
        let end: usize = kani::any();
        kani::assume(start <= end && end < N);
        kani::assume(first_non_ws(&chars) <= start);
        kani::cover!(first_non_ws(&chars) > 0 && start > first_non_ws(&chars), "indented line, marker not at the first token");
        kani::cover!(chars[N - 1].is_whitespace(), "trailing blank");
        kani::cover!(end > start, "marker wider than one column");
        kani::cover!(alpha > 3 && chars[0] == '\u{3000}', "multi-byte blank in the indentation");
        kani::cover!(alpha > 3 && start > 1 && chars[0] == 'a' && chars[1] == '\u{3000}', "multi-byte blank between the tokens before the marker");
        check_with(&chars, line, start, end, alpha <= 3);
    }

    // ---------------------------------------------------------------- concrete instances
    h!(c_plain, 16, { check(&[' ', ' ', 'a', 'd', 'd', ' ', 'x'], 6, 2, 4); });
    h!(c_tab, 16, { check(&['\t', 'a', '\t', 'b', ' '], 9, 3, 3); });
    // the smallest panicking inputs found natively (current tree: FAIL; with the byte/char fix: pass)
    h!(c_nbsp_between, 16, { check(&['a', '\u{a0}', 'b'], 0, 2, 2); });
    h!(c_ideographic_indent, 16, { check(&['\u{3000}', 'a', 'b'], 0, 2, 2); });
    h!(c_ideographic_shift, 16, { check(&['a', '\u{3000}', ' ', ' ', 'b'], 0, 4, 4); });

    // ---------------------------------------------------------------- concrete text, symbolic columns
    h!(
    /// text "  ab c" (concrete), every (start, end) with 2 <= start <= end < 6
    k_cols, 16, model_repeat, {
        let start: usize = kani::any();
        let end: usize = kani::any();
        kani::assume(2 <= start && start <= end && end < 6);
        kani::cover!(start == 2 && end == 5, "whole line");
        kani::cover!(start == 5 && end == 5, "last column");
        check_with(&[' ', ' ', 'a', 'b', ' ', 'c'], 3, start, end, true);
    });

    // ---------------------------------------------------------------- symbolic, ASCII blanks only
    h!(s2_ascii, 14, { symbolic::<2>(3, 6); });
    h!(s3_ascii, 14, { symbolic::<3>(3, 6); });
    h!(s4_ascii, 14, { symbolic::<4>(3, 6); });

    // ---------------------------------------------------------------- symbolic, with multi-byte blanks
    h!(s2_multibyte, 16, { symbolic::<2>(5, 6); });
    h!(s3_multibyte, 16, { symbolic::<3>(5, 6); });
    h!(s4_multibyte, 16, { symbolic::<4>(5, 6); });
}

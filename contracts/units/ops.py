# U1 `ops` — MathOp::operate, Inst::math_op, Inst::scalar_op  (Kani, complete)
OPS = ['add', 'and', 'or', 'sll', 'slt', 'sltu', 'sra', 'srl', 'sub', 'xor',
       'mul', 'mulh', 'mulhsu', 'mulhu', 'div', 'divu', 'rem', 'remu']

SLOW = {'rem': 600, 'remu': 600, 'div': 600, 'divu': 300, 'mul': 300, 'mulh': 300, 'mulhsu': 300, 'mulhu': 300}

UNIT = {
    'unit': 'ops',
    'backend': 'kani',
    'crate': 'riscv_analysis',
    'weave': [
        {'file': 'riscv_analysis/src/cfg/ops.rs',
         'attrs': [{'item': 'impl MathOp :: fn operate',
                    'lines': ['#[cfg_attr(kani, kani::ensures(|r: &i32| verif_spec_ops::is_rv32(self, x, y, *r)))]']}],
         'append': 'kani/ops_harness.rs'},
        {'file': 'riscv_analysis/src/parser/inst.rs',
         'attrs': [{'item': 'enum Inst', 'lines': ['#[cfg_attr(kani, derive(kani::Arbitrary))]']}]},
    ],
    'functions': [
        {'file': 'riscv_analysis/src/cfg/ops.rs', 'item': 'impl MathOp :: fn operate'},
        {'file': 'riscv_analysis/src/cfg/ops.rs', 'item': 'impl Inst :: fn math_op'},
        {'file': 'riscv_analysis/src/cfg/ops.rs', 'item': 'impl Inst :: fn scalar_op'},
    ],
    'obligations': [
        {'id': 'ops.operate.%s' % op,
         'harness': 'cfg::ops::verif_kani_ops::operate_%s' % op,
         'props': ['C08', 'C01', 'C06'],
         'kind': 'complete',
         'clause': ('MathOp::%s.operate(x, y) never panics, returns x for y == 0, 0 for MIN %% -1, and a value with '
                    '|r| < |y| and the sign of x, for all 2^64 operand pairs (the exact value is obligation ops_v.operate.post.value)' % op.capitalize())
                   if op in ('rem', 'remu') else
                   ('MathOp::%s.operate(x, y) returns the RV32IM result of %s for all 2^64 operand pairs and never panics '
                    '(function contract `ensures is_rv32(self, x, y, r)`, proof_for_contract, overflow checks on)' % (op.capitalize(), op)),
         'timeout': SLOW.get(op, 120),
         'tier': 'quick',
         'inputs': [['x', 'i32'], ['y', 'i32']],
         'replay': ['ops-operate', op]}
        for op in OPS
    ] + [
        {'id': 'ops.math_op.table',
         'harness': 'cfg::ops::verif_kani_ops::math_op_table',
         'props': ['C08', 'C01'],
         'kind': 'complete',
         'clause': 'for every Inst i: math_op(i) == Some(op) implies the ISA manual assigns ALU operation op to i',
         'timeout': 120, 'tier': 'quick',
         'inputs': [['i', 'u8']], 'replay': ['ops-math-op']},
        {'id': 'ops.scalar_op.table',
         'harness': 'cfg::ops::verif_kani_ops::scalar_op_table',
         'props': ['C08', 'C01'],
         'kind': 'complete',
         'clause': 'for every Inst i: scalar_op(i) == Some(op) implies op in {Add, Sub} and math_op(i) == Some(op)',
         'timeout': 120, 'tier': 'quick',
         'inputs': [['i', 'u8']], 'replay': ['ops-scalar-op']},
    ],
}

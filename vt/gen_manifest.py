"""Regenerates MANIFEST.json and contracts/properties.json from one table (run by hand: python3 -m vt.gen_manifest)."""
import json
import os

VERIF = os.path.dirname(os.path.dirname(os.path.abspath(__file__)))

TRUST_KANI = "Kani 0.68 / CBMC 6.11 (CaDiCaL) and its model of Rust MIR and of core/alloc"
TRUST_VERUS = "Verus 0.2026.09.13 / Z3 and vstd's specifications of core/alloc"
TRUST_WEAVE = "the /verif extractor and weavers (insertion-only, identity-checked on every run)"

CLAIMED = {
 "C01": {
   "level": "proof", "design": "DESIGN.md 5 (U1, U5), 6 C01",
   "text": "Local soundness ingredients of the value analysis, discharged for all inputs on the real functions: constant folding (MathOp::operate) equals RV32IM for all 2^64 operand pairs per operator (Kani function contract; rem/remu value by Verus over integers); Inst::math_op / scalar_op name the ALU operation the ISA assigns (full enum domain).",
   "note": "Decides only that every folded constant is the machine's value. NOT decided: gen/kill facts, the rewrite rules, their composition per node and the fixed-point loop of AvailableValuePass::run (Rc<RefCell<HashSet>> graph code, outside both verifiers) - so the global theorem 'every claim is true on every execution' is not claimed.",
   "trusted": [TRUST_KANI, TRUST_VERUS, TRUST_WEAVE, "the two transcriptions of the ISA manual used as oracles (contracts/kani/ops_harness.rs::rv32/is_rv32, contracts/verus/ops_spec.rs::rv32_int)"],
   "not_decided": ["gen_reg_value / gen_memory_value facts", "rule_* rewrites", "composition and fixed point in AvailableValuePass::run", "call-site kills and entry re-seeding"],
   "technique": "contract-based deductive verification: Kani function contracts (proof_for_contract) + Verus ensures on mechanically extracted real code"},
 "C06": {
   "level": "proof", "design": "DESIGN.md 6 C06",
   "text": "Panic-freedom (arithmetic overflow with checks on, shifts, division, unwrap, slicing, split_at, debug assertions) and termination (Verus decreases on every loop; Kani unwinding assertions) for every function under contract: the whole lexer (cursor, string/escape handling, Lexer::next), constant folding, Register/RegisterSet operations and iterator, ecall table.",
   "note": "Covers only the functions listed in evidence.functions_under_contract. NOT decided: the parse loop, the fixed-point loops of the analyses, include recursion and file I/O, stack depth, CLI output modes - a crash outside the listed functions is invisible to this check.",
   "trusted": [TRUST_KANI, TRUST_VERUS, TRUST_WEAVE],
   "not_decided": ["RVParser::parse_from_file and error recovery", "AvailableValuePass / LivenessPass / dead-code loops", "CLI file reader and printers", "stack depth"],
   "technique": "contract-based deductive verification (Verus requires/ensures/invariant/decreases on extracted real code; Kani full-domain harnesses)"},
 "C07": {
   "level": "proof", "design": "DESIGN.md 5 (U4), 6 C07",
   "text": "At lexer level, for every source text of every length: Lexer::next reports end of stream only at the end of the text (after blanks only), always makes progress, and every consumed non-blank character lies inside the returned token or on the line of the returned error; blanks are exactly space, tab, CR and comma. Proved by Verus on the extracted real functions with loop invariants and a termination measure.",
   "note": "NOT decided: containment of a malformed line by RVParser::parse_from_file / recover_from_parse_error (generic FileReader, Peekable, lexer stack) - the parser level of the property is outside this check.",
   "trusted": [TRUST_VERUS, TRUST_WEAVE, "std gaps assumed (char::is_ascii_*, to_digit, from_u32, Option::copied, String + &str never panics, str::split_at(1) after '#')", "opaque stand-ins for Uuid / ParserNode / ExpectedType", "derive(Clone) on Range modelled as a field-wise copy"],
   "not_decided": ["parser-level line containment and recovery", "included files (lexer stack)"],
   "technique": "contract-based deductive verification (Verus on mechanically extracted lexer functions)"},
 "C08": {
   "level": "proof", "design": "DESIGN.md 5 (U1, U5, U6), 6 C08",
   "text": "Constant-folding clause: function contracts on the real MathOp::operate / Inst::math_op / Inst::scalar_op discharged for all inputs - Kani proof_for_contract per operator over all 2^64 operand pairs (loop-free, hence complete) and Verus over mathematical integers for add/sub/slt/sltu/div/divu/rem/remu.",
   "note": "NOT decided yet: mnemonic/operand decoding, pseudo-instruction expansion (ParserNode::try_from) and the architectural def/use sets.",
   "trusted": [TRUST_KANI, TRUST_VERUS, TRUST_WEAVE, "the two transcriptions of the ISA manual used as oracles", "assumed std contracts i32::wrapping_div / wrapping_rem and two core From impls (Verus half)"],
   "not_decided": ["ParserNode::try_from decode table and pseudo-instruction expansion", "reads_from / writes_to"],
   "technique": "contract-based deductive verification (Kani function contracts + Verus ensures on mechanically extracted real code)"},
 "C09": {
   "level": "proof", "design": "DESIGN.md 5 (U4), 6 C09",
   "text": "For every source text: every position produced by the lexer cursor is consistent (line = number of newlines before the offset, column = distance from the line start, offset inside the file); every token's start and end are consistent, on one line, inside the file, and delimit exactly the token text (inclusive end) for symbols, labels, directives, comments, parentheses and newlines; error tokens are located on the offending text. Proved by Verus on the extracted real lexer.",
   "note": "NOT decided: the accumulation of an instruction's range over its tokens (AnnotatedLexer::get_any), that each lint attaches the right token to its message, printer/LSP conversions. String/char token payloads are not related to the source (escape decoding), only their delimiters are.",
   "trusted": [TRUST_VERUS, TRUST_WEAVE, "std gaps assumed (see C07)", "closed spec accessors for private fields"],
   "not_decided": ["instruction-level ranges (get_any)", "diagnostic -> token attribution in lints", "CLI / LSP rendering of positions"],
   "technique": "contract-based deductive verification (Verus on mechanically extracted lexer functions)"},
 "C14": {
   "level": "proof", "design": "DESIGN.md 5 (U2), 6 C14",
   "text": "Tables and naming: every register-class table equals the psABI class and is uniform within the temporary and the saved class; number <-> name <-> enum conversions are bijections (all 65 spellings enumerated); every RegisterSet operation is the set operation on the abstract view; the ecall table names only a-registers. Kani, complete (full domains, loops bounded by 32 with unwinding assertions).",
   "note": "NOT decided: equivariance of the analysis pipeline itself and label renaming (graph code, string hashing). A non-uniform table is directly a pair of renamed programs with different diagnostics, which is why these obligations are direct for C14.",
   "trusted": [TRUST_KANI, TRUST_WEAVE, "the psABI register-class masks written in contracts/kani/regs_tables.rs"],
   "not_decided": ["pipeline equivariance", "label renaming"],
   "technique": "contract-based deductive verification (Kani function contracts and full-domain harnesses on the real crate)"},
 "C19": {
   "level": "proof", "design": "DESIGN.md 5 (U2, U7), 6 C19",
   "text": "Value encodings: RegisterSet <-> register list (iteration yields exactly the members in ascending order from any cursor; FromIterator builds the union; Register <-> number is a bijection), all for the full domain (Kani, complete).",
   "note": "NOT decided: map containers (HashMap -> BTreeMap), CfgWrapper::from, serde_yaml, serde derive machinery. MemoryLocation string keys and AvailableValue tags: see evidence (bounded / pending).",
   "trusted": [TRUST_KANI, TRUST_WEAVE, "serde's Vec<T> and repr(u8) encodings are faithful"],
   "not_decided": ["AvailableValueMap encoding", "CfgWrapper::from", "serde_yaml"],
   "technique": "contract-based deductive verification (Kani full-domain harnesses on the real crate)"},
}

NA = {
 "C02": "Liveness fixed point over Rc<RefCell<HashSet<Rc<CfgNode>>>> with interprocedural coupling (layer C, DESIGN 1.2/6): neither Verus nor Kani can state or check contracts on it; in-reach ingredients are decided under C08/C14.",
 "C03": "CFG edge symmetry/exactness are invariants of RefCell<HashSet<Rc<CfgNode>>> mutated through &self by five passes with node hashes that change (layer C): outside both verifiers; edge predicates are decided under C08.",
 "C04": "End-to-end precision of two fixed-point analyses and eleven lints over whole programs; no function-level contract expresses it and all code involved is layer C.",
 "C05": "End-to-end recall of the eleven lints over the Rc graph (layer C); no function contract within reach decides it.",
 "C10": "Quantifies over hash seeds / random UUID iteration order of HashSet<Rc<CfgNode>> and HashMap<Label, Rc<Function>> in layer C; not expressible as a function contract here.",
 "C11": "FunctionMarkupPass / CfgNextsIterator / call_names are layer C (Rc graph, iterator adapters over hash sets).",
 "C12": "A statement about re-running the layer-C fixed-point loops; the in-reach ingredients (replace_if_changed, CfgIterator) are not direct for it.",
 "C13": "A relation between two whole-pipeline runs; its function-level ingredients are decided under C17/C14/C08 and cross-referenced in DESIGN 6.",
 "C15": "Relational over parser runs with a generic FileReader and file-system code; no verifier model of the file system or of the parse loop.",
 "C16": "Which CfgError is produced where is decided in Cfg::new_with_predefined_call_names (hash-set algebra through iterator adapters) and layer-C passes.",
}
PENDING = {
 "C17": "check not built yet in this session (unit imm in progress); listed here until its contracts are committed",
 "C18": "check not built yet in this session (unit excerpt in progress); listed here until its contracts are committed",
}


def main():
    props = {}
    checks = []
    for pid, c in sorted(CLAIMED.items()):
        props[pid] = {"level": c["level"], "trusted_base": c["trusted"], "not_decided": c["not_decided"], "assumptions": []}
        checks.append({
            "property_id": pid,
            "quick_cmd": "./check %s --tier quick" % pid,
            "thorough_cmd": "./check %s --tier thorough" % pid,
            "evidence_file": "evidence/%s.json" % pid,
            "replay_cmd_template": "./check replay {path}",
            "engine": "vt",
            "level_claimed": {"category": c["level"], "text": c["text"], "design_ref": c["design"]},
            "level_note": c["note"],
            "technique": c["technique"],
        })
    na = dict(NA)
    for k, v in PENDING.items():
        if k not in CLAIMED:
            na[k] = v
    man = {
        "version": 1,
        "setup_cmd": "./setup.sh",
        "hooks": {"guard": "cfg(kani) / verus! (no hooks are committed in /repo; contracts are woven into a scratch copy on every run)",
                  "enable": "none needed: ./check weaves contracts into a scratch copy of /repo's working tree; cfg(kani) exists only there",
                  "baseline_off_cmd": "cd /repo && cargo test --workspace --no-fail-fast --offline",
                  "source_commits": [], "add_only": True},
        "engines": [
            {"name": "vt", "path": "vt/", "serves_properties": sorted(CLAIMED),
             "kind_free_text": "contract weaver + runner: Kani 0.68 function contracts / full-domain harnesses woven insertion-only into a scratch copy of the real crate; Verus 0.2026.09.13 on items extracted mechanically from /repo on every run; identity check, vacuity canaries, assumption scan, replay of counterexamples on the real code"}],
        "checks": checks,
        "not_applicable": [{"property_id": k, "reason": v} for k, v in sorted(na.items())],
        "notes": "See DESIGN.md. Checks exit 0 (all obligations discharged), 1 (VIOLATION line), 2 (UNDECIDED: tool limit, never an alarm). KNOWN_FINDINGS.txt lists repaired defects (fixed:) and open findings.",
    }
    json.dump(man, open(os.path.join(VERIF, 'MANIFEST.json'), 'w'), indent=1)
    json.dump(props, open(os.path.join(VERIF, 'contracts', 'properties.json'), 'w'), indent=1)
    print('wrote MANIFEST.json (%d checks, %d not_applicable)' % (len(checks), len(na)))


if __name__ == '__main__':
    main()

# unit `genkill` — per-instruction generated facts and kill sets (analysis/gen_kill.rs), Kani, complete (loop-free, full domain)
D = '#[cfg_attr(kani, derive(kani::Arbitrary))]'
H = 'analysis::gen_kill::verif_kani_genkill::'

def ob(i, h, props, clause, inputs, timeout=600):
    return {'id': 'genkill.' + i, 'harness': H + h, 'props': props, 'kind': 'complete', 'clause': clause, 'timeout': timeout,
            'tier': 'quick', 'inputs': inputs, 'replay': None, 'search': ['genkill-search']}

UNIT = {
    'unit': 'genkill', 'backend': 'kani', 'crate': 'riscv_analysis',
    'requires_units': ['ops', 'regs'],     # uses verif_spec_ops (ISA reference) and verif_kani_regset::view
    'weave': [
        {'file': 'riscv_analysis/src/analysis/gen_kill.rs', 'append': 'kani/genkill_harness.rs'},
        {'file': 'riscv_analysis/src/parser/inst.rs',
         'attrs': [{'item': 'enum ' + e, 'lines': [D]} for e in ['ArithType', 'IArithType', 'StoreType', 'LoadType', 'BranchType']]},
    ],
    'functions': [
        {'file': 'riscv_analysis/src/analysis/gen_kill.rs', 'item': 'impl HasGenValueInfo for ParserNode :: fn gen_reg_value'},
        {'file': 'riscv_analysis/src/analysis/gen_kill.rs', 'item': 'impl HasGenValueInfo for ParserNode :: fn gen_memory_value'},
        {'file': 'riscv_analysis/src/analysis/gen_kill.rs', 'item': 'impl HasGenKillInfo for ParserNode :: fn kill_reg'},
    ],
    'obligations': [
        ob('gen_reg_value.arith', 'gen_reg_value_arith_sound', ['C01', 'C06'],
           'for every R-type instruction, registers and register file: a constant generated for rd is the RV32IM result (x0 reads 0), '
           'and facts are attached only to the written register, never to x0',
           [['t', 'u8'], ['rd', 'u8'], ['rs1', 'u8'], ['rs2', 'u8'], ['va', 'i32'], ['vb', 'i32']]),
        ob('gen_reg_value.iarith', 'gen_reg_value_iarith_sound', ['C01', 'C06'],
           'for every I-type instruction, immediate and register file: a constant generated for rd is the RV32IM result; none for auipc',
           [['t', 'u8'], ['rd', 'u8'], ['rs1', 'u8'], ['imm', 'i32'], ['va', 'i32']]),
        ob('gen_memory_value.store', 'gen_memory_value_store_sound', ['C01', 'C06'],
           'a stack-slot fact is generated only by `sw rs2, imm(sp)` and names exactly slot imm and register rs2 (byte/half stores generate none)',
           [['t', 'u8'], ['rs1', 'u8'], ['rs2', 'u8'], ['imm', 'i32']]),
        ob('kill_reg.arith', 'kill_reg_arith', ['C01', 'C08', 'C06'], 'kill set of every R-type instruction = {rd} - {x0}', [['t', 'u8'], ['rd', 'u8'], ['rs1', 'u8'], ['rs2', 'u8']]),
        ob('kill_reg.load', 'kill_reg_load', ['C01', 'C08', 'C06'], 'kill set of every load = {rd} - {x0}', [['t', 'u8'], ['rd', 'u8'], ['rs1', 'u8']]),
        dict(ob('kill_reg.store', 'kill_reg_store', ['C01', 'C08', 'C06'], 'stores kill no register', [['st', 'u8'], ['rs1', 'u8'], ['rs2', 'u8']], timeout=1200), tier='thorough'),
        dict(ob('kill_reg.branch', 'kill_reg_branch', ['C01', 'C08', 'C06'], 'branches kill no register', [['bt', 'u8'], ['rs1', 'u8'], ['rs2', 'u8']], timeout=1200), tier='thorough'),
        ob('kill_reg.jal', 'kill_reg_jal', ['C01', 'C08', 'C06'], 'jal ra kills exactly the caller-saved class t+a; any other jal kills only its link register (minus x0)', [['rd', 'u8']]),
    ],
}

// ---- woven by /verif (unit U2 `regs`): Register number/name conversions ----
#[cfg(kani)]
mod verif_kani_register {
    use super::Register;
    use std::str::FromStr;

    /// psABI numbering: the enum discriminant is the architectural register number
    pub fn arch_num(r: Register) -> u8 { r as u8 }

    #[kani::proof_for_contract(Register::to_num)]
    fn to_num_contract() {
        let r: Register = kani::any();
        let _ = r.to_num();
    }

    #[kani::proof_for_contract(Register::from_num)]
    fn from_num_contract() {
        let n: u8 = kani::any();
        let _ = Register::from_num(n);
    }

    /// from_num(to_num(r)) == Ok(r) and to_num(from_num(n)) == n: the conversions are inverse bijections on 0..32
    #[kani::proof]
    fn num_roundtrip() {
        let r: Register = kani::any();
        match Register::from_num(r.to_num()) {
            Ok(r2) => assert!(r2 == r),
            Err(_) => panic!("from_num(to_num(r)) failed"),
        }
        let n: u8 = kani::any();
        if let Ok(r3) = Register::from_num(n) {
            assert!(r3.to_num() == n);
        }
    }

    const ABI: [&str; 32] = ["zero", "ra", "sp", "gp", "tp", "t0", "t1", "t2", "s0", "s1", "a0", "a1", "a2", "a3",
        "a4", "a5", "a6", "a7", "s2", "s3", "s4", "s5", "s6", "s7", "s8", "s9", "s10", "s11", "t3", "t4", "t5", "t6"];
    const XN: [&str; 32] = ["x0", "x1", "x2", "x3", "x4", "x5", "x6", "x7", "x8", "x9", "x10", "x11", "x12", "x13",
        "x14", "x15", "x16", "x17", "x18", "x19", "x20", "x21", "x22", "x23", "x24", "x25", "x26", "x27", "x28",
        "x29", "x30", "x31"];

    /// Every psABI name and every x-name denotes the register with that architectural number
    /// (finite enumeration of the 65 spellings, split into four harnesses); near-miss spellings are rejected.
    macro_rules! name_harness {
        ($name:ident, $table:ident, $lo:expr, $hi:expr) => {
            #[kani::proof]
            #[kani::unwind(34)]
            fn $name() {
                let k: usize = kani::any();
                kani::assume($lo <= k && k < $hi);
                match Register::from_str($table[k]) {
                    Ok(r) => assert!(arch_num(r) as usize == k, "name maps to the wrong register"),
                    Err(()) => panic!("register name rejected"),
                }
            }
        };
    }
    name_harness!(from_str_abi_q0, ABI, 0, 8);
    name_harness!(from_str_abi_q1, ABI, 8, 16);
    name_harness!(from_str_abi_q2, ABI, 16, 24);
    name_harness!(from_str_abi_q3, ABI, 24, 32);
    name_harness!(from_str_xn_lo, XN, 0, 16);
    name_harness!(from_str_xn_hi, XN, 16, 32);
    #[kani::proof]
    #[kani::unwind(8)]
    fn from_str_misc() {
        match Register::from_str("fp") {
            Ok(r) => assert!(arch_num(r) == 8),
            Err(()) => panic!("fp rejected"),
        }
        assert!(Register::from_str("x32").is_err());
        assert!(Register::from_str("s12").is_err());
        assert!(Register::from_str("t7").is_err());
        assert!(Register::from_str("a8").is_err());
        assert!(Register::from_str("").is_err());
    }
}

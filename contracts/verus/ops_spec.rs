// RV32IM arithmetic over mathematical integers (ISA manual vol. I ch. 2 and ch. 7),
// independent of the bit-level Rust reference used by the Kani harnesses.
pub open spec fn to_u32(x: int) -> int { if x >= 0 { x } else { x + 0x1_0000_0000 } }
pub open spec fn to_i32(u: int) -> int { if u < 0x8000_0000 { u } else { u - 0x1_0000_0000 } }
pub open spec fn wrap32(v: int) -> int { to_i32(v % 0x1_0000_0000) }

/// quotient rounded towards zero / matching remainder (y != 0)
pub open spec fn trunc_div(x: int, y: int) -> int {
    if x >= 0 { if y > 0 { x / y } else { -(x / (-y)) } }
    else { if y > 0 { -((-x) / y) } else { (-x) / (-y) } }
}
pub open spec fn trunc_rem(x: int, y: int) -> int { x - trunc_div(x, y) * y }

pub open spec fn rv32_defined(op: MathOp) -> bool {
    op is Add || op is Sub || op is Slt || op is Sltu || op is Div || op is Divu || op is Rem || op is Remu
}

pub open spec fn rv32_int(op: MathOp, x: int, y: int) -> int {
    match op {
        MathOp::Add => wrap32(x + y),
        MathOp::Sub => wrap32(x - y),
        MathOp::Slt => if x < y { 1 } else { 0 },
        MathOp::Sltu => if to_u32(x) < to_u32(y) { 1 } else { 0 },
        MathOp::Div => if y == 0 { -1 } else if x == -0x8000_0000 && y == -1 { -0x8000_0000 } else { trunc_div(x, y) },
        MathOp::Divu => if y == 0 { -1 } else { to_i32(to_u32(x) / to_u32(y)) },
        MathOp::Rem => if y == 0 { x } else if x == -0x8000_0000 && y == -1 { 0 } else { trunc_rem(x, y) },
        MathOp::Remu => if y == 0 { x } else { to_i32(to_u32(x) % to_u32(y)) },
        _ => 0,
    }
}

/// dividing by -1 negates, so the remainder is 0 (stated once so that the Rem/Div clauses do not depend on the SMT seed)
pub proof fn lemma_div_rem_minus_one(x: int)
    ensures trunc_div(x, -1) == -x, trunc_rem(x, -1) == 0,
{
    assert(x >= 0 ==> x / 1 == x) by(nonlinear_arith);
    assert(x < 0 ==> (-x) / 1 == -x) by(nonlinear_arith);
}

// ---- std contracts assumed (documented behaviour of core::num; listed in TRUSTED.md) ----
pub assume_specification [i32::wrapping_div] (x: i32, y: i32) -> (r: i32)
    requires y != 0,
    ensures r == (if x == i32::MIN && y == -1 { i32::MIN as int } else { trunc_div(x as int, y as int) });
pub assume_specification [i32::wrapping_rem] (x: i32, y: i32) -> (r: i32)
    requires y != 0,
    ensures r == (if y == -1 { 0 } else { trunc_rem(x as int, y as int) });

// vstd has no model of these two core `From` impls (value-preserving widenings).
#[verifier::external_body]
pub proof fn axiom_from_std()
    ensures
        <i64 as FromSpec<u32>>::obeys_from_spec(),
        forall|v: u32| #[trigger] <i64 as FromSpec<u32>>::from_spec(v) == v as i64,
        <i32 as FromSpec<bool>>::obeys_from_spec(),
        forall|v: bool| #[trigger] <i32 as FromSpec<bool>>::from_spec(v) == (if v { 1i32 } else { 0i32 }),
{}

// ---- cast lemmas: Verus leaves out-of-range `as` casts unspecified in integer mode;
// ---- their two's-complement meaning is proved here through the bit-vector theory.
pub proof fn lemma_i32_as_u32(x: i32)
    ensures (x as u32) as int == to_u32(x as int),
{
    assert(x >= 0 ==> (x as u32) < 0x8000_0000u32 && ((x as u32) as i32) == x) by(bit_vector);
    assert(x < 0 ==> (x as u32) >= 0x8000_0000u32
        && (((x as u32) - 0x8000_0000u32) as u32) as i32 == (x - (-0x8000_0000i32)) as i32) by(bit_vector);
}
pub proof fn lemma_u32_as_i32(u: u32)
    ensures (u as i32) as int == to_i32(u as int),
{
    assert(u < 0x8000_0000u32 ==> (u as i32) >= 0i32 && ((u as i32) as u32) == u) by(bit_vector);
    assert(u >= 0x8000_0000u32 ==> (u as i32) < 0i32
        && ((u as i32) - (-0x8000_0000i32)) as i32 == ((u - 0x8000_0000u32) as u32) as i32) by(bit_vector);
}
pub proof fn lemma_casts()
    ensures
        forall|x: i32| (#[trigger] (x as u32)) as int == to_u32(x as int),
        forall|u: u32| (#[trigger] (u as i32)) as int == to_i32(u as int),
{
    assert forall|x: i32| (#[trigger] (x as u32)) as int == to_u32(x as int) by { lemma_i32_as_u32(x); }
    assert forall|u: u32| (#[trigger] (u as i32)) as int == to_i32(u as int) by { lemma_u32_as_i32(u); }
}
pub proof fn lemma_mul_bounds(a: int, b: int)
    requires -0x8000_0000 <= a < 0x8000_0000, -0x8000_0000 <= b < 0x1_0000_0000,
    ensures -0x8000_0000_0000_0000 <= a * b < 0x8000_0000_0000_0000,
{
    // |a| <= 2^31 and |b| <= 2^32 - 1 < 2^32
    assert(a * b <= 0x8000_0000 * 0xFFFF_FFFF && a * b >= -(0x8000_0000 * 0xFFFF_FFFF)) by(nonlinear_arith)
        requires -0x8000_0000 <= a <= 0x8000_0000, -0xFFFF_FFFF <= b <= 0xFFFF_FFFF;
}
pub proof fn lemma_umul_bounds(a: int, b: int)
    requires 0 <= a < 0x1_0000_0000, 0 <= b < 0x1_0000_0000,
    ensures 0 <= a * b < 0x1_0000_0000_0000_0000,
{
    assert(0 <= a * b <= 0xFFFF_FFFF * 0xFFFF_FFFF) by(nonlinear_arith)
        requires 0 <= a <= 0xFFFF_FFFF, 0 <= b <= 0xFFFF_FFFF;
}

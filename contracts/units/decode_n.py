# unit `decode_n` — bounded native stand-in for ParserNode::try_from (decode table + pseudo-instruction expansion).
# The function (770 lines over Peekable<Lexer>, format!, iterator state) is not under Verus/Kani contract; this
# enumerates the finite table of mnemonics x operand forms through the public API. Never counted as proved.
UNIT = {
    'unit': 'decode_n', 'backend': 'native',
    'functions': [{'file': 'riscv_analysis/src/parser/parsing.rs', 'item': 'impl TryFrom<&mut Peekable<Lexer>> for ParserNode :: fn try_from'}],
    'obligations': [
        {'id': 'decode_n.table', 'recipe': ['decode-search'], 'props': ['C08', 'C17'], 'kind': 'bounded',
         'bound': '119 statements in all: statements that must be rejected (lui operand outside 20 bits, literals outside 32 bits, wrong operand kinds) and mnemonic/operand forms (incl. the bare-offset and parenthesised forms of loads, stores and jalr, and 5 statements that expand to two instructions): every base mnemonic with one or two concrete register/immediate choices (exact fields), '
                  'every pseudo-instruction against its official expansion on an 8x8 grid of boundary register values',
         'clause': 'every mnemonic and operand form builds the instruction the manual assigns to the text; every pseudo-instruction has the same '
                   'effect (register result, branch decision, jump) as its official expansion',
         'tier': 'quick'},
    ],
}

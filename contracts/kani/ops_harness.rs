// ---- woven by /verif (unit U1 `ops`); compiled only under cfg(kani) ----
#[cfg(kani)]
pub(crate) mod verif_spec_ops {
    //! RV32IM ALU reference semantics (ISA manual vol. I ch. 2, "M" extension ch. 7),
    //! written from the manual, not from `MathOp::operate`.
    use super::MathOp;

    /// Straightforward form (also used by the native replay runner).
    pub fn rv32(op: &MathOp, x: i32, y: i32) -> i32 {
        let (xu, yu) = (x as u32, y as u32);
        let sh = yu & 31;
        match op {
            MathOp::Add => x.wrapping_add(y),
            MathOp::Sub => x.wrapping_sub(y),
            MathOp::And => x & y,
            MathOp::Or => x | y,
            MathOp::Xor => x ^ y,
            MathOp::Sll => (xu << sh) as i32,
            MathOp::Srl => (xu >> sh) as i32,
            MathOp::Sra => x >> sh,
            MathOp::Slt => (x < y) as i32,
            MathOp::Sltu => (xu < yu) as i32,
            MathOp::Mul => ((x as i64).wrapping_mul(y as i64)) as i32,
            MathOp::Mulh => (((x as i64) * (y as i64)) >> 32) as i32,
            MathOp::Mulhsu => (((x as i64) * (yu as i64)) >> 32) as i32,
            MathOp::Mulhu => (((xu as u64) * (yu as u64)) >> 32) as i32,
            MathOp::Div => {
                if y == 0 { -1 } else if x == i32::MIN && y == -1 { i32::MIN } else { x / y }
            }
            MathOp::Divu => if yu == 0 { -1 } else { (xu / yu) as i32 },
            MathOp::Rem => {
                if y == 0 { x } else if x == i32::MIN && y == -1 { 0 } else { x % y }
            }
            MathOp::Remu => if yu == 0 { x } else { (xu % yu) as i32 },
        }
    }

    /// ISA manual table: which ALU operation an instruction performs on
    /// (rs1, rs2) or (rs1, sign-extended imm / shamt).  `None`: not a two-operand
    /// ALU instruction of RV32IM (+ the RV64 `w` forms restricted to 32-bit values).
    pub fn isa_alu(i: crate::parser::Inst) -> Option<MathOp> {
        use crate::parser::Inst;
        Some(match i {
            Inst::Add | Inst::Addi => MathOp::Add,
            Inst::Sub => MathOp::Sub,
            Inst::And | Inst::Andi => MathOp::And,
            Inst::Or | Inst::Ori => MathOp::Or,
            Inst::Xor | Inst::Xori => MathOp::Xor,
            Inst::Sll | Inst::Slli => MathOp::Sll,
            Inst::Srl | Inst::Srli => MathOp::Srl,
            Inst::Sra | Inst::Srai => MathOp::Sra,
            Inst::Slt | Inst::Slti => MathOp::Slt,
            Inst::Sltu | Inst::Sltiu => MathOp::Sltu,
            Inst::Mul => MathOp::Mul,
            Inst::Mulh => MathOp::Mulh,
            Inst::Mulhsu => MathOp::Mulhsu,
            Inst::Mulhu => MathOp::Mulhu,
            Inst::Div | Inst::Divw => MathOp::Div,
            Inst::Divu => MathOp::Divu,
            Inst::Rem | Inst::Remw => MathOp::Rem,
            Inst::Remu | Inst::Remuw => MathOp::Remu,
            _ => return None,
        })
    }

    pub fn same_op(a: &MathOp, b: &MathOp) -> bool {
        core::mem::discriminant(a) == core::mem::discriminant(b)
    }

    /// Relational form: `r` is the RV32IM result of `op` on `(x, y)`.
    /// Division and remainder are characterised by q*y + rem = x with the
    /// RISC-V sign rules instead of by a second divider (SAT-friendly).
    pub fn is_rv32(op: &MathOp, x: i32, y: i32, r: i32) -> bool {
        let (xu, yu, ru) = (x as u32, y as u32, r as u32);
        match op {
            MathOp::Div => {
                if y == 0 { return r == -1; }
                if x == i32::MIN && y == -1 { return r == i32::MIN; }
                let (x6, y6, q6) = (x as i64, y as i64, r as i64);
                let rem = x6 - q6 * y6;
                (rem == 0 || ((rem < 0) == (x6 < 0))) && rem.abs() < y6.abs()
            }
            MathOp::Divu => {
                if yu == 0 { return r == -1; }
                let (x6, y6, q6) = (xu as u64, yu as u64, ru as u64);
                q6 * y6 <= x6 && x6 - q6 * y6 < y6
            }
            // Remainders: SAT cannot prove two divider instances equal (uniqueness of division needs
            // multiplier reasoning), so Kani decides the special cases, the range and the sign rule, all
            // implied by one divider; the full value r == x - trunc(x/y)*y is discharged by Verus over
            // mathematical integers (unit ops_v).
            MathOp::Rem => {
                if y == 0 { return r == x; }
                if x == i32::MIN && y == -1 { return r == 0; }
                let (x6, y6, r6) = (x as i64, y as i64, r as i64);
                (r6 == 0 || ((r6 < 0) == (x6 < 0))) && r6.abs() < y6.abs()
            }
            MathOp::Remu => {
                if yu == 0 { return r == x; }
                ru < yu
            }
            _ => r == rv32(op, x, y),
        }
    }
}

#[cfg(kani)]
mod verif_kani_ops {
    use super::MathOp;

    macro_rules! op_harness {
        ($name:ident, $op:expr $(, $attr:meta)*) => {
            $(#[$attr])*
            #[kani::proof_for_contract(MathOp::operate)]
            fn $name() {
                let x: i32 = kani::any();
                let y: i32 = kani::any();
                let _ = $op.operate(x, y);
            }
        };
    }
    op_harness!(operate_add, MathOp::Add);
    op_harness!(operate_and, MathOp::And);
    op_harness!(operate_or, MathOp::Or);
    op_harness!(operate_sll, MathOp::Sll);
    op_harness!(operate_slt, MathOp::Slt);
    op_harness!(operate_sltu, MathOp::Sltu);
    op_harness!(operate_sra, MathOp::Sra);
    op_harness!(operate_srl, MathOp::Srl);
    op_harness!(operate_sub, MathOp::Sub);
    op_harness!(operate_xor, MathOp::Xor);
    op_harness!(operate_mul, MathOp::Mul);
    op_harness!(operate_mulh, MathOp::Mulh);
    op_harness!(operate_mulhsu, MathOp::Mulhsu);
    op_harness!(operate_mulhu, MathOp::Mulhu);
    op_harness!(operate_div, MathOp::Div);
    op_harness!(operate_divu, MathOp::Divu);
    op_harness!(operate_rem, MathOp::Rem);
    op_harness!(operate_remu, MathOp::Remu);

    // ---- Inst::math_op / Inst::scalar_op against the ISA manual's table ----
    use crate::parser::Inst;
    use super::verif_spec_ops::{isa_alu, same_op};

    /// math_op(i) == Some(op)  ==>  the manual says instruction i computes `op`
    /// on (rs1, rs2) resp. (rs1, imm).  Loop-free over every `Inst` value.
    #[kani::proof]
    fn math_op_table() {
        let i: Inst = kani::any();
        kani::cover!(i.math_op().is_some());
        if let Some(op) = i.math_op() {
            match isa_alu(i) {
                Some(sem) => assert!(same_op(&op, &sem), "math_op names a different ALU operation than the ISA"),
                None => panic!("math_op folds an instruction that is not an RV32IM ALU operation"),
            }
        }
    }

    /// scalar_op is a restriction of math_op to add/sub (what the offset rules rely on)
    #[kani::proof]
    fn scalar_op_table() {
        let i: Inst = kani::any();
        kani::cover!(i.scalar_op().is_some());
        if let Some(op) = i.scalar_op() {
            assert!(matches!(op, MathOp::Add | MathOp::Sub), "scalar_op must be add or sub");
            match i.math_op() {
                Some(m) => assert!(same_op(&op, &m), "scalar_op disagrees with math_op"),
                None => panic!("scalar_op defined where math_op is not"),
            }
        }
    }
}

//! Bounded native check of the lint-level clause of C09 (public API only): a diagnostic about a register is located on exactly
//! that register operand — a use-type diagnostic on a register the instruction reads, a definition-type diagnostic on the
//! register it writes — and every diagnostic lies on one line inside the file.
use riscv_analysis::parser::{EmptyFileReader, InstructionProperties, RVParser, RVStringParser, Register};
use riscv_analysis::passes::DiagnosticLocation;
use std::panic::{catch_unwind, AssertUnwindSafe};
use std::str::FromStr;

const USE_KINDS: [&str; 2] = ["Invalid use after call", "Invalid use before assignment"];
const DEF_KINDS: [&str; 4] = ["Unused value", "Lost register value", "Overwrite callee-saved register", "Saving to zero register"];

pub fn check_program(src: &str) -> Result<usize, String> {
    let lines: Vec<Vec<char>> = src.split('\n').map(|l| l.chars().collect()).collect();
    let diags = catch_unwind(AssertUnwindSafe(|| {
        let mut parser = RVParser::new(EmptyFileReader::new(src));
        parser.run(EmptyFileReader::get_file_path())
    })).map_err(|_| format!("the analyzer panicked on {src:?}"))?;
    let (nodes, _) = RVStringParser::parse_from_text(src);
    let mut seen = 0;
    for d in &diags {
        let (sl, sc, el, ec) = (d.range.start().zero_idx_line(), d.range.start().zero_idx_column(), d.range.end().zero_idx_line(), d.range.end().zero_idx_column());
        if sl != el || sl >= lines.len() || sc > ec || ec >= lines[sl].len() + 1 {
            return Err(format!("`{}` is located at {sl}:{sc} - {el}:{ec}, which is not a stretch of one line of the file; program: {src:?}", d.title));
        }
        let text: String = lines[sl].iter().skip(sc).take(ec + 1 - sc).collect();
        let is_use = USE_KINDS.contains(&d.title.as_str());
        let is_def = DEF_KINDS.contains(&d.title.as_str());
        if !is_use && !is_def { continue; }
        // `ret` reads the saved registers without naming them: such a diagnostic sits on the instruction
        let Ok(reg) = Register::from_str(text.trim()) else {
            if text.trim().split_whitespace().next().map_or(false, |m| ["ret", "uret", "ecall", "jal", "call", "jalr", "jr"].contains(&m)) { continue; }
            return Err(format!("`{}` is about a register but is located on {text:?} (line {sl}, columns {sc}..={ec}); program: {src:?}", d.title));
        };
        let Some(node) = nodes.iter().find(|n| n.is_instruction() && n.range().start().zero_idx_line() == sl && n.range().start().zero_idx_column() <= sc && n.range().end().zero_idx_column() >= ec) else {
            return Err(format!("`{}` on {text:?} (line {sl}) is not inside any instruction; program: {src:?}", d.title));
        };
        seen += 1;
        if is_use && !node.reads_from().iter().any(|r| *r.get() == reg) {
            return Err(format!("`{}` is located on {text:?}, which `{}` does not read; program: {src:?}", d.title, lines[sl].iter().collect::<String>().trim()));
        }
        if is_def && node.writes_to().map(|r| *r.get()) != Some(reg) {
            return Err(format!("`{}` is located on {text:?}, which `{}` does not write; program: {src:?}", d.title, lines[sl].iter().collect::<String>().trim()));
        }
    }
    Ok(seen)
}

pub fn search(v: &serde_json::Value) -> i32 {
    if let Some(src) = v.get("inputs").and_then(|i| i.get("program")).and_then(|s| s.as_str()) {
        return match check_program(src) { Err(w) => { println!("witness: {w}"); 1 } Ok(n) => { println!("{n} register diagnostics of {src:?} are on the right operand"); 0 } };
    }
    let mut total = 0;
    let layouts: [(&str, &str); 3] = [("", ""), ("# header\n\n", ""), ("", "   # trailing comment")];
    let mut n = 0;
    for p in crate::symm::programs() {
        for (pre, tail) in layouts {
            // layout variants: a header before the program, a comment after every statement
            let text: String = format!("{pre}{}", p.split('\n').map(|l| if l.trim().is_empty() || tail.is_empty() { l.to_string() } else { format!("{l}{tail}") }).collect::<Vec<_>>().join("\n"));
            n += 1;
            match check_program(&text) { Err(w) => { println!("witness: {w}"); return 1; } Ok(k) => total += k }
        }
    }
    if total < 20 { println!("error: the pool produces only {total} register diagnostics"); return 2; }
    println!("no misplaced diagnostic among {total} register diagnostics of {n} program layouts (use-type diagnostics on a register the instruction reads, definition-type diagnostics on the register it writes, every diagnostic on one line inside the file)");
    0
}

//! Native replay of counterexamples against the real riscv_analysis crate
//! (path dependency on /repo, overflow checks on).
//! exit 1: the real code violates the obligation on this input (confirmed)
//! exit 0: the real code satisfies it on this input
//! exit 2: cannot replay
use std::io::Read;
use std::panic::{catch_unwind, AssertUnwindSafe};

mod ops;
mod regs;
mod lexer;
mod nodes;
mod decode;
mod values;
mod loc;
mod channels;
mod term;
mod dump;
mod symm;
mod lines;
mod imm;
mod memloc;

pub fn geti(v: &serde_json::Value, k: &str) -> Option<i64> {
    v.get("inputs")?.get(k)?.as_i64()
}

fn main() {
    let args: Vec<String> = std::env::args().skip(1).collect();
    let mut s = String::new();
    let _ = std::io::stdin().read_to_string(&mut s);
    let v: serde_json::Value = serde_json::from_str(&s).unwrap_or(serde_json::Value::Null);
    std::panic::set_hook(Box::new(|_| {}));
    let r = catch_unwind(AssertUnwindSafe(|| match args.first().map(String::as_str) {
        Some("ops-operate") => ops::operate(&args[1], &v),
        Some("ops-math-op") => ops::math_op(&v),
        Some("ops-scalar-op") => ops::scalar_op(&v),
        Some("ops-search") => ops::search(&v),
        Some("symm-search") => symm::search(&v),
        Some("loc-search") => loc::search(&v),
        Some("channels-search") => channels::search(&v),
        Some("term-search") => term::search(&v),
        Some("dump-search") => dump::search(&v),
        Some("values-search") => values::search(&v),
        Some("values-enum") => values::enumerate(args.get(1).and_then(|s| s.parse().ok()).unwrap_or(3), args.get(2).map(String::as_str).unwrap_or("straight"), args.get(3).and_then(|s| s.parse().ok())),
        Some("lines-search") => lines::search(&v),
        Some("decode-finding") => decode::finding(args.get(1).map(String::as_str).unwrap_or("")),
        Some("decode-search") => decode::search(&v),
        Some("getany-search") => nodes::getany_search(&v),
        Some("genkill-search") => nodes::genkill_search(&v),
        Some("nodes-search") => nodes::nodes_search(&v),
        Some("lexer-search") => lexer::search(&v),
        Some("imm") => imm::run(args.get(1).map(String::as_str).unwrap_or(""), &v),
        Some("tags-search") => memloc::tags_search(),
        Some("memloc") => memloc::run(args.get(1).map(String::as_str).unwrap_or(""), &v),
        Some("regs") => regs::run(args.get(1).map(String::as_str).unwrap_or(""), &v),
        _ => {
            println!("unknown replay recipe {:?}", args);
            2
        }
    }));
    match r {
        Ok(code) => std::process::exit(code),
        Err(_) => {
            println!("replay runner itself panicked");
            std::process::exit(2)
        }
    }
}

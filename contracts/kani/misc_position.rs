// ---- woven by /verif (unit `misc`): Position arithmetic ----
#[cfg(kani)]
mod verif_kani_position {
    use super::Position;

    /// increment_column moves one character to the right on the same line; decrement_to_beginning_of_line goes back to
    /// column 0 of the same line. For every consistent position (column <= raw_index) that is not at usize::MAX neither panics.
    #[kani::proof]
    fn position_moves() {
        let (line, column, raw): (usize, usize, usize) = (kani::any(), kani::any(), kani::any());
        kani::assume(column <= raw && line <= raw && raw < usize::MAX);   // consistent: a line has at least one character before the next starts
        let mut p = Position::new(line, column, raw);
        p.increment_column();
        assert!(p.zero_idx_line() == line && p.zero_idx_column() == column + 1 && p.raw_index() == raw + 1);
        let mut q = Position::new(line, column, raw);
        q.decrement_to_beginning_of_line();
        assert!(q.zero_idx_line() == line && q.zero_idx_column() == 0 && q.raw_index() == raw - column);
        assert!(q.one_idx_line() == line + 1 && q.one_idx_column() == 1);
    }
}

# unit `memloc` -- MemoryLocation's hand-written serde string encoding is reloadable (Kani, bounded: concrete points)
#
# decode(encode(m)) == Ok(m) and neither side panics; injectivity of encode follows from that.
# The real Serialize::serialize / Deserialize::deserialize / MemoryLocationVisitor::visit_str run under CBMC with
# std's real `format!`, integer Display and integer parsing.  Tool limit (measured, CBMC 6.11): a symbolic payload is
# infeasible even for a ten-value range (StackOffset(i), i in -9..=9: no verdict in 25 min; CsrRegister(c), c in
# 0..=9: out of memory), and so is a loop over ten concrete values inside one harness (no verdict in 15 min).
# Hence: one harness per concrete value (10-75 s each), chosen at the sign / digit-count / type boundaries.
MOD = 'analysis::memory_location::verif_kani_memloc::'
I32_MIN, I32_MAX, U32_MAX = -2**31, 2**31 - 1, 2**32 - 1

# (harness, variant, csr, offset)   variant: 0 StackOffset(offset), 1 CsrRegister(csr), 2 CsrRegisterValueOffset(csr, offset)
POINTS = [
    ('so_min', 0, 0, I32_MIN), ('so_min_plus_1', 0, 0, I32_MIN + 1), ('so_m1000000000', 0, 0, -10**9),
    ('so_m10', 0, 0, -10), ('so_m9', 0, 0, -9), ('so_m1', 0, 0, -1), ('so_zero', 0, 0, 0), ('so_p1', 0, 0, 1),
    ('so_p9', 0, 0, 9), ('so_p10', 0, 0, 10), ('so_p99', 0, 0, 99), ('so_p100', 0, 0, 100),
    ('so_p9999', 0, 0, 9999), ('so_p10000', 0, 0, 10000), ('so_max', 0, 0, I32_MAX),
    ('csr_zero', 1, 0, 0), ('csr_9', 1, 9, 0), ('csr_10', 1, 10, 0), ('csr_4095', 1, 4095, 0),
    ('csr_10000', 1, 10000, 0), ('csr_max', 1, U32_MAX, 0),
    ('csro_0_0', 2, 0, 0), ('csro_7_3', 2, 7, 3), ('csro_3_m7', 2, 3, -7), ('csro_10_m10', 2, 10, -10),
    ('csro_4095_m1', 2, 4095, -1), ('csro_0_min', 2, 0, I32_MIN), ('csro_max_m1', 2, U32_MAX, -1),
    ('csro_1_max', 2, 1, I32_MAX),
]


def show(v, c, o):
    return ['StackOffset(%d)' % o, 'CsrRegister(%d)' % c, 'CsrRegisterValueOffset(%d, %d)' % (c, o)][v]


def ob(h, v, c, o):
    point = '%s@%d,%d,%d' % (h, v, c, o)
    return {
        'id': 'memloc.' + h,
        'harness': MOD + h,
        'props': ['C19', 'C06'],
        'kind': 'bounded',
        'bound': 'exactly the value ' + show(v, c, o),
        'clause': ('m = %s: serialize(m) emits one string w, visit_str(w) == Ok(m) and deserialize(w) == Ok(m), and no step '
                   'panics (overflow checks on); with the other memloc.* points: different values have different encodings'
                   % show(v, c, o)),
        'timeout': 300,
        'tier': 'quick',
        'inputs': [],                      # no symbolic input: the point is named in the replay recipe
        'replay': ['memloc', point],
        'search': ['memloc', point],       # used by the driver because the verifier cannot give a model for a constant harness
    }


UNIT = {
    'unit': 'memloc',
    'backend': 'kani',
    'crate': 'riscv_analysis',
    'weave': [
        {'file': 'riscv_analysis/src/analysis/memory_location.rs', 'append': 'kani/memloc_harness.rs'},
    ],
    'functions': [
        {'file': 'riscv_analysis/src/analysis/memory_location.rs', 'item': 'impl Serialize for MemoryLocation :: fn serialize'},
        {'file': 'riscv_analysis/src/analysis/memory_location.rs', 'item': "impl Visitor<'_> for MemoryLocationVisitor :: fn visit_str"},
        {'file': 'riscv_analysis/src/analysis/memory_location.rs', 'item': "impl<'de> Deserialize<'de> for MemoryLocation :: fn deserialize"},
    ],
    'obligations': [ob(*p) for p in POINTS],
}

# C06 is carried by the boundary points only (the others decide C19)
for _o in UNIT['obligations']:
    if not any(k in _o['id'] for k in ('so_min', 'so_max', 'csro_0_min', 'csr_max', 'so_zero')):
        _o['props'] = [p for p in _o['props'] if p != 'C06']

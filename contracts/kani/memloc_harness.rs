// ---- woven by /verif (unit `memloc`); compiled only under cfg(kani) ----
// C19: the hand-written string encoding of `MemoryLocation` is reloadable:
//      decode(encode(m)) == Ok(m), and neither side panics (C06).
// Injectivity of encode follows: encode(a) == encode(b) ==> a == decode(encode(a)) == decode(encode(b)) == b.
//
// The REAL `Serialize::serialize`, `Deserialize::deserialize` and `MemoryLocationVisitor::visit_str`
// are executed, including std's `format!`, integer formatting and integer parsing.
//
// Shape of every harness (a two-step proof of the round trip through an intermediate string):
//      let w = wire(&m);                 // the wire form written out by hand in the harness (no std::fmt)
//      assert!(encode(&m) == w);         // (1) the real serializer emits exactly w
//      assert!(decode(&w) == Ok(m));     // (2) the real deserializer maps w back to m
// (1) and (2) give decode(encode(m)) == Ok(m).  `wire` is NOT trusted: if it were wrong, (1) or (2) fails.
// Feeding `encode`'s own output into `decode` inside CBMC is intractable here (the String that comes out
// of `fmt::write` has a symbolic length/content after CBMC merged all `dyn`/fn-pointer candidates, and
// `split('+')`/`parse` then unwind over it; > 600 s even for the constant StackOffset(0)).
//
// Three std functions that only build a panic MESSAGE are replaced by a plain panic (same behaviour:
// they never return, and reaching them still fails the harness):
//   * core::result::unwrap_failed                 (message of Result::unwrap/expect inside std::fmt)
//   * <core::num::TryFromIntError as Debug>::fmt  (argument of such a message)
//   * core::str::slice_error_fail                 (message of a failed str slice / split_at)
// and
//   * alloc::fmt::format -> the same body with `String::with_capacity(64)` instead of
//     `String::with_capacity(args.estimated_capacity())`: the capacity of a String is not observable, the
//     real `String::write_fmt` / `core::fmt::write` / `Display for i32/u32` run unchanged.  (With the real
//     capacity computation the result length is symbolic for CBMC: 2.3 M variables and 97 s for the
//     constant StackOffset(0), against 0.1 M variables and 3 s with the fixed capacity.)
// Without the first three the `{:?}` formatting code for those messages becomes a candidate of every formatting
// fn-pointer call and drags `PadAdapter::write_str` (recursive through `dyn Write`) into the model; CBMC
// then unwinds that recursion forever, even for constant inputs.
#[cfg(kani)]
mod verif_kani_memloc {
    use super::{MemoryLocation, MemoryLocationVisitor};
    use crate::parser::CsrImm;
    use serde::de::value::StrDeserializer;
    use serde::de::Visitor;
    use serde::ser::Impossible;
    use serde::{Deserialize, Serialize, Serializer};

    /// Error type of the capturing serializer / of the decoder: carries nothing, so that the
    /// (unreachable on a correct tree) error paths do not drag `to_string` into the model.
    #[derive(Debug)]
    pub struct E;
    impl core::fmt::Display for E {
        fn fmt(&self, f: &mut core::fmt::Formatter<'_>) -> core::fmt::Result { f.write_str("E") }
    }
    impl std::error::Error for E {}
    impl serde::ser::Error for E { fn custom<T: core::fmt::Display>(_: T) -> Self { E } }
    impl serde::de::Error for E { fn custom<T: core::fmt::Display>(_: T) -> Self { E } }

    /// A `Serializer` that records the string handed to `serialize_str`; every other entry point
    /// is an error (the encoding under contract is "one string").
    struct Capture;
    macro_rules! refuse { ($($f:ident($($t:ty),*);)*) => { $(fn $f(self $(, _: $t)*) -> Result<String, E> { Err(E) })* } }
    impl Serializer for Capture {
        type Ok = String;
        type Error = E;
        type SerializeSeq = Impossible<String, E>;
        type SerializeTuple = Impossible<String, E>;
        type SerializeTupleStruct = Impossible<String, E>;
        type SerializeTupleVariant = Impossible<String, E>;
        type SerializeMap = Impossible<String, E>;
        type SerializeStruct = Impossible<String, E>;
        type SerializeStructVariant = Impossible<String, E>;
        fn serialize_str(self, v: &str) -> Result<String, E> { Ok(String::from(v)) }
        refuse! {
            serialize_bool(bool); serialize_i8(i8); serialize_i16(i16); serialize_i32(i32); serialize_i64(i64);
            serialize_u8(u8); serialize_u16(u16); serialize_u32(u32); serialize_u64(u64);
            serialize_f32(f32); serialize_f64(f64); serialize_char(char); serialize_bytes(&[u8]);
            serialize_none(); serialize_unit(); serialize_unit_struct(&'static str);
            serialize_unit_variant(&'static str, u32, &'static str);
        }
        fn serialize_some<T: ?Sized + Serialize>(self, _: &T) -> Result<String, E> { Err(E) }
        fn serialize_newtype_struct<T: ?Sized + Serialize>(self, _: &'static str, _: &T) -> Result<String, E> { Err(E) }
        fn serialize_newtype_variant<T: ?Sized + Serialize>(self, _: &'static str, _: u32, _: &'static str, _: &T) -> Result<String, E> { Err(E) }
        fn serialize_seq(self, _: Option<usize>) -> Result<Self::SerializeSeq, E> { Err(E) }
        fn serialize_tuple(self, _: usize) -> Result<Self::SerializeTuple, E> { Err(E) }
        fn serialize_tuple_struct(self, _: &'static str, _: usize) -> Result<Self::SerializeTupleStruct, E> { Err(E) }
        fn serialize_tuple_variant(self, _: &'static str, _: u32, _: &'static str, _: usize) -> Result<Self::SerializeTupleVariant, E> { Err(E) }
        fn serialize_map(self, _: Option<usize>) -> Result<Self::SerializeMap, E> { Err(E) }
        fn serialize_struct(self, _: &'static str, _: usize) -> Result<Self::SerializeStruct, E> { Err(E) }
        fn serialize_struct_variant(self, _: &'static str, _: u32, _: &'static str, _: usize) -> Result<Self::SerializeStructVariant, E> { Err(E) }
    }

    /// encode with the real `Serialize` impl
    fn encode(m: &MemoryLocation) -> String {
        match m.serialize(Capture) {
            Ok(s) => s,
            Err(E) => panic!("MemoryLocation::serialize did not produce a string"),
        }
    }

    /// decode with the real `Deserialize` impl (-> `deserialize_str` -> `MemoryLocationVisitor::visit_str`)
    fn decode(s: &str) -> Result<MemoryLocation, E> {
        MemoryLocation::deserialize(StrDeserializer::<E>::new(s))
    }

    /// The wire form, written out by hand: "so+N" / "so-N" (N = |offset| in decimal), "csr+C",
    /// "csro+C+I" (I = offset as signed decimal, '-' only when negative).
    fn wire(m: &MemoryLocation) -> String {
        fn dec(out: &mut String, mut n: u64) {
            let mut buf = [0u8; 10];
            let mut k = 10;
            loop {
                k -= 1;
                buf[k] = b'0' + (n % 10) as u8;
                n /= 10;
                if n == 0 { break; }
            }
            while k < 10 { out.push(buf[k] as char); k += 1; }
        }
        let mut out = String::new();
        match m {
            MemoryLocation::StackOffset(i) => {
                out.push_str(if *i < 0 { "so-" } else { "so+" });
                dec(&mut out, (*i as i64).unsigned_abs());
            }
            MemoryLocation::CsrRegister(c) => {
                out.push_str("csr+");
                dec(&mut out, c.value() as u64);
            }
            MemoryLocation::CsrRegisterValueOffset(c, i) => {
                out.push_str("csro+");
                dec(&mut out, c.value() as u64);
                out.push('+');
                if *i < 0 { out.push('-'); }
                dec(&mut out, (*i as i64).unsigned_abs());
            }
        }
        out
    }

    /// THE obligation: decode(encode(m)) == Ok(m) (via the intermediate string, see the file header);
    /// any panic inside either side fails the harness.
    fn roundtrip(m: MemoryLocation) {
        let w = wire(&m);
        // (1) the real serializer emits exactly w
        let s = encode(&m);
        assert!(s == w, "serialize emits a different string than the documented wire form");
        // (2) the real visitor (what any self-describing format ends up calling) maps w back to m ...
        match MemoryLocationVisitor.visit_str::<E>(&w) {
            Ok(back) => assert!(back == m, "visit_str(encode(m)) is a different memory location"),
            Err(E) => panic!("visit_str rejects the emitted encoding"),
        }
        // ... and so does the public Deserialize impl
        match decode(&w) {
            Ok(back) => assert!(back == m, "decode(encode(m)) is a different memory location"),
            Err(E) => panic!("the emitted encoding cannot be loaded"),
        }
        // reached only when nothing above panicked: the harness is not vacuous
        kani::cover!(s.len() >= 4, "value encoded, compared and reloaded");
    }

    fn unwrap_failed_plain(_msg: &str, _e: &dyn core::fmt::Debug) -> ! {
        panic!("Result::unwrap()/expect() on an Err value inside std")
    }
    fn no_debug_try_from_int(_x: &core::num::TryFromIntError, _f: &mut core::fmt::Formatter<'_>) -> core::fmt::Result {
        panic!("Debug formatting of TryFromIntError reached")
    }

    fn slice_error_fail_plain(_s: &str, _begin: usize, _end: usize) -> ! {
        panic!("str slice index out of range or not on a char boundary")
    }

    /// `alloc::fmt::format` with a fixed initial capacity instead of `Arguments::estimated_capacity()`;
    /// the rest is the body of the real function (real `write_fmt`)
    fn format_cap64(args: core::fmt::Arguments<'_>) -> String {
        use core::fmt::Write;
        let mut out = String::with_capacity(64);
        match out.write_fmt(args) {
            Ok(()) => out,
            Err(_) => panic!("a formatting trait implementation returned an error"),
        }
    }

    /// `h!(name, unwind, { body })`: a proof harness with the four std stubs described in the file header
    macro_rules! h {
        ($(#[$doc:meta])* $name:ident, $unwind:literal, $body:block) => {
            $(#[$doc])*
            #[kani::proof]
            #[kani::unwind($unwind)]
            #[kani::stub(core::result::unwrap_failed, unwrap_failed_plain)]
            #[kani::stub(alloc::fmt::format, format_cap64)]
            #[kani::stub(core::str::slice_error_fail, slice_error_fail_plain)]
            #[kani::stub(<core::num::TryFromIntError as core::fmt::Debug>::fmt, no_debug_try_from_int)]
            fn $name() $body
        };
    }

    fn so(i: i32) -> MemoryLocation { MemoryLocation::StackOffset(i) }
    fn csr(c: u32) -> MemoryLocation { MemoryLocation::CsrRegister(CsrImm::new(c)) }
    fn csro(c: u32, i: i32) -> MemoryLocation { MemoryLocation::CsrRegisterValueOffset(CsrImm::new(c), i) }

    // Every harness below runs the round trip on ONE concrete value ("bounded: exactly this value").
    // Measured limits of CBMC 6.11 on this code (all with the stubs above):
    //   * symbolic payload, StackOffset(i) with i in -9..=9: no verdict after 25 min; CsrRegister(c) with
    //     c in 0..=9: out of memory (> 12 GB) after ~20 min -- with a symbolic integer the digit count,
    //     hence every length and offset inside `fmt::write`/`String`, is symbolic;
    //   * ten concrete values enumerated by a loop inside one harness: no verdict after 15 min
    //     (one value: 10-25 s), so each value gets its own harness and the driver runs them in parallel.
    macro_rules! pt { ($($name:ident = $m:expr;)*) => { $( h!($name, 24, { roundtrip($m); }); )* } }

    pt! {
        // ---------------------------------------------------------------- StackOffset
        so_min = so(i32::MIN);                 // "so-2147483648": |i32::MIN| does not fit an i32
        so_min_plus_1 = so(i32::MIN + 1);
        so_m1000000000 = so(-1_000_000_000);   // ten digits, negative
        so_m10 = so(-10);
        so_m9 = so(-9);
        so_m1 = so(-1);
        so_zero = so(0);
        so_p1 = so(1);
        so_p9 = so(9);
        so_p10 = so(10);
        so_p99 = so(99);
        so_p100 = so(100);
        so_p9999 = so(9_999);                  // std formats four digits per loop iteration
        so_p10000 = so(10_000);
        so_max = so(i32::MAX);
        // ---------------------------------------------------------------- CsrRegister
        csr_zero = csr(0);
        csr_9 = csr(9);
        csr_10 = csr(10);
        csr_4095 = csr(4095);                  // 0xFFF, the largest architectural CSR number
        csr_10000 = csr(10_000);
        csr_max = csr(u32::MAX);
        // ---------------------------------------------------------------- CsrRegisterValueOffset
        csro_0_0 = csro(0, 0);
        csro_7_3 = csro(7, 3);                 // distinct one-digit payloads: a swap of the fields is caught
        csro_3_m7 = csro(3, -7);
        csro_10_m10 = csro(10, -10);
        csro_4095_m1 = csro(4095, -1);
        csro_0_min = csro(0, i32::MIN);
        csro_max_m1 = csro(u32::MAX, -1);
        csro_1_max = csro(1, i32::MAX);
        // csro(u32::MAX, i32::MIN) and csro(u32::MAX, i32::MAX) (27 and 26 characters): no verdict within 20 min
    }
}

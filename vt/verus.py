"""Verus route (DESIGN §2.1): mechanical extraction of the real items from
/repo's working tree into one generated file, insertion-only weave of the
contracts, identity check, run `verus`, map diagnostics back to obligations."""
import json
import os
import re
import subprocess
import time

from . import rustscan
from .common import CONTRACTS, Infra, REPO, VERIF, log, new_scratch, read, rm_scratch, sha256, write

W = '//@W'   # tag on every woven line

PROOF_FAIL = [
    'postcondition not satisfied', 'precondition not satisfied', 'possible arithmetic underflow/overflow',
    'possible division by zero', 'assertion failed', 'invariant not satisfied', 'decreases not satisfied',
    'possible bit shift underflow/overflow', 'loop invariant not satisfied', 'could not prove termination',
    'cannot show invariant', 'unable to prove', 'assertion not satisfied', 'bit_vector assertion',
    'possible truncation', 'failed precondition', 'failed this postcondition', 'panic',
    'unreachable', 'possible negative shift', 'checked arithmetic',
]
UNDECIDED = ['rlimit', 'resource limit', 'timed out', 'timeout']


def canon(text):
    """whitespace-insensitive canonical form (whitespace inside literals kept)"""
    msk = rustscan.mask(text)
    out = []
    prev_space = False
    for ch, m in zip(text, msk):
        if m.isspace() and ch.isspace():
            if not prev_space:
                out.append(' ')
            prev_space = True
        else:
            out.append(ch)
            prev_space = False
    s = ''.join(out).strip()
    # `sig {` vs `sig\n{` and `-> T {`: spaces around braces/parens are not significant
    s = re.sub(r' ?([{}()\[\],;]) ?', r'\1', s)
    return s


def _tag(lines, label):
    return [('%s %s:%s' % (l, W, label)) if l.strip() else l for l in lines]


def _apply_rewrites(text, rewrites):
    info = []
    for rw in rewrites or []:
        if rw[0] == 'lit':
            _, pat, repl = rw[0], rw[1], rw[2]
            expect = rw[3] if len(rw) > 3 else None
            n = text.count(pat)
            text = text.replace(pat, repl)
        else:
            pat, repl = rw[0], rw[1]
            expect = rw[2] if len(rw) > 2 else None
            text, n = re.subn(pat, repl, text)
        if expect is not None and n != expect:
            DEGRADED.append('rewrite %r expected %s sites, found %d' % (pat, expect, n))
        info.append({'pattern': pat, 'replacement': repl, 'sites': n})
    return text, info


DEGRADED = []   # filled during build_unit: annotations that could not be placed on the current source


def weave_fn(src, msk, it, sc):
    """returns woven text of one fn item (list of lines with tags)"""
    base = it.start if sc.get('attrs', 'keep') == 'keep' else it.sig
    text = src[base:it.end]
    m = msk[base:it.end]
    off = lambda abs_idx: abs_idx - base
    inserts = []   # (offset_in_text, string)
    # spec between signature and body
    spec_lines = []
    for key in ('requires', 'ensures'):
        clauses = sc.get(key) or []
        if clauses:
            spec_lines.append('    %s %s:%s' % (key, W, 'kw'))
            for label, expr in clauses:
                ls = expr.rstrip().rstrip(',').split('\n')
                ls[-1] += ','
                spec_lines += _tag(['        ' + l for l in ls], label)
    if sc.get('decreases'):
        spec_lines.append('    decreases %s, %s:%s' % (sc['decreases'], W, 'term'))
    if sc.get('opens_invariants'):
        spec_lines.append('    opens_invariants none %s:kw' % W)
    bo = off(it.body_open)
    if spec_lines:
        inserts.append((bo, '\n' + '\n'.join(spec_lines) + '\n'))
    if sc.get('body_start'):
        inserts.append((bo + 1, '\n' + '\n'.join(_tag(['        ' + l for l in sc['body_start']], 'hint'))))
    # loops
    loops = rustscan.loops_in(src, it, msk)
    for ordinal, clauses in (sc.get('loops') or {}).items():
        ordinal = int(ordinal)
        if ordinal >= len(loops):
            DEGRADED.append('loop#%d of %s no longer exists (has %d loops): its invariants were not woven' % (ordinal, sc['item'], len(loops)))
            continue
        kw, brace = loops[ordinal]
        ls = []
        if clauses.get('invariant'):
            ls.append('            invariant %s:kw' % W)
            for label, expr in clauses['invariant']:
                e = expr.rstrip().rstrip(',').split('\n')
                e[-1] += ','
                ls += _tag(['                ' + l for l in e], 'loop%d.%s' % (ordinal, label))
        if clauses.get('invariant_except_break'):
            ls.append('            invariant_except_break %s:kw' % W)
            for label, expr in clauses['invariant_except_break']:
                e = expr.rstrip().rstrip(',').split('\n')
                e[-1] += ','
                ls += _tag(['                ' + l for l in e], 'loop%d.%s' % (ordinal, label))
            # Verus wants invariant_except_break before invariant: move it to the front
            k = next(i for i, l in enumerate(ls) if 'invariant_except_break' in l)
            ls = ls[k:] + ls[:k]
        if clauses.get('ensures'):
            ls.append('            ensures %s:kw' % W)
            for label, expr in clauses['ensures']:
                e = expr.rstrip().rstrip(',').split('\n')
                e[-1] += ','
                ls += _tag(['                ' + l for l in e], 'loop%d.%s' % (ordinal, label))
        if clauses.get('decreases'):
            ls.append('            decreases %s, %s:loop%d.term' % (clauses['decreases'], W, ordinal))
        inserts.append((off(brace), '\n' + '\n'.join(ls) + '\n'))
        if clauses.get('body_start'):
            inserts.append((off(brace) + 1, '\n' + '\n'.join(_tag(['                ' + l for l in clauses['body_start']], 'hint'))))
    # statement anchors
    for a in sc.get('anchors') or []:
        lit = a['at']
        idxs = [mm.start() for mm in re.finditer(re.escape(lit), text)]
        nth = a.get('nth')
        if nth is None:
            if len(idxs) != 1:
                DEGRADED.append('statement anchor %r matches %d times in %s: proof hint / assertion not woven' % (lit, len(idxs), sc['item']))
                continue
            idx = idxs[0]
        else:
            if nth >= len(idxs):
                DEGRADED.append('statement anchor %r #%d not found in %s: not woven' % (lit, nth, sc['item']))
                continue
            idx = idxs[nth]
        ls = '\n'.join(_tag(['            ' + l for l in a['lines']], a.get('label', 'hint')))
        if a.get('where', 'before') == 'before':
            pos = text.rfind('\n', 0, idx) + 1
            inserts.append((pos, ls + '\n'))
        else:
            pos = text.find('\n', idx + len(lit))
            pos = len(text) if pos < 0 else pos
            inserts.append((pos, '\n' + ls))
    inserts.sort(key=lambda t: t[0])
    if any(pos < bo for pos, _ in inserts):
        raise Infra('weave insertion before the body of %s' % sc['item'])
    out, last = [], bo
    for pos, s in inserts:
        out.append(text[last:pos])
        out.append(s)
        last = pos
    out.append(text[last:])
    sig = text[:bo]
    if sc.get('ret'):
        wm = re.search(r'\bwhere\b', m[:bo])
        where = ''
        head = sig
        if wm:
            head, where = sig[:wm.start()], sig[wm.start():]
        mret = re.search(r'->\s*(.+?)\s*$', head, re.S)
        if not mret:
            raise Infra('cannot name the return value of %s' % sc['item'])
        sig = head[:mret.start()] + '-> (%s: %s) ' % (sc['ret'], mret.group(1).strip()) + where
    woven = sig + ''.join(out)
    return text, woven


def strip_woven(woven, ret):
    lines = [l for l in woven.split('\n') if W not in l]
    s = '\n'.join(lines)
    if ret:
        s = re.sub(r'->\s*\(%s:\s*([^{]+?)\)\s*(?=\{|where\b|\n)' % re.escape(ret), lambda m: '-> ' + m.group(1).strip() + ' ', s, count=1)
    return s


def build_unit(unit):
    del DEGRADED[:]
    parts = []      # (text, origin)
    funcs = []
    rewrites_info = []
    header = 'use vstd::prelude::*;\n' + ''.join(l + '\n' for l in unit.get('uses', [])) + 'verus! {\n'
    parts.append((header, ('gen', None)))
    for p in unit.get('prelude', []):
        parts.append(('// ---- prelude: %s ----\n' % p + read(os.path.join(CONTRACTS, p)) + '\n', ('prelude', p)))
    for k, t in enumerate(unit.get('prelude_inline', [])):
        parts.append(('// ---- prelude (inline %d) ----\n' % k + t + '\n', ('prelude', 'inline%d' % k)))
    cache = {}
    for sc in unit['items']:
        path = os.path.join(REPO, sc['file'])
        if path not in cache:
            s = read(path)
            cache[path] = (s, rustscan.mask(s))
        src, msk = cache[path]
        it = rustscan.find_item(src, sc['item'], msk)
        for lit in sc.get('requires_text', []):
            if canon(lit) not in canon(src):
                raise Infra('rewrite premise %r no longer present in %s' % (lit, sc['file']))
        name = sc.get('fn') or it.name
        if it.kind == 'fn':
            orig, woven = weave_fn(src, msk, it, sc)
        else:
            base = it.start if sc.get('attrs', 'drop') == 'keep' else it.sig
            orig = src[base:it.end]
            pre = '\n'.join(_tag(sc.get('pre_lines', []), 'derive'))
            woven = (pre + '\n' if pre else '') + orig
        woven_rw, info = _apply_rewrites(woven, (unit.get('rewrites') or []) + (sc.get('rewrites') or []))
        orig_rw, _ = _apply_rewrites(orig, (unit.get('rewrites') or []) + (sc.get('rewrites') or []))
        # identity check
        if canon(strip_woven(woven_rw, sc.get('ret'))) != canon(orig_rw):
            a, b = canon(strip_woven(woven_rw, sc.get('ret'))), canon(orig_rw)
            k = next((i for i in range(min(len(a), len(b))) if a[i] != b[i]), min(len(a), len(b)))
            raise Infra('identity check failed for %s :: %s near: %r vs %r' % (sc['file'], sc['item'], a[max(0, k - 40):k + 40], b[max(0, k - 40):k + 40]))
        rewrites_info += [dict(i, item=sc['item']) for i in info if i['sites']]
        wrap = sc.get('wrap')
        text = woven_rw
        if wrap:
            # `wrap_lines`: associated-type lines of the trait impl the fn is taken from, copied from the source (each must be
            # present there literally, checked like a rewrite premise)
            wl = sc.get('wrap_lines', [])
            for lit in wl:
                if canon(lit) not in canon(src):
                    raise Infra('wrap line %r no longer present in %s' % (lit, sc['file']))
            text = '%s {\n%s%s\n}\n' % (wrap, ''.join('    %s\n' % l for l in wl), text)
        parts.append((text + '\n', ('item', name, sc)))
        funcs.append({'file': sc['file'], 'item': sc['item'], 'line': it.line(), 'sha256': sha256(src[it.start:it.end])})
    for p in unit.get('postlude', []):
        parts.append(('// ---- postlude: %s ----\n' % p + read(os.path.join(CONTRACTS, p)) + '\n', ('prelude', p)))
    for c in unit.get('canaries', []):
        parts.append(('proof fn verif_canary_%s(%s)\n    requires %s,\n    ensures false,\n{}\n' % (c['name'], c['params'], c['requires']),
                      ('canary', c['name'])))
    parts.append(('} // verus!\nfn main() {}\n', ('gen', None)))
    text = ''
    linemap = []
    for t, origin in parts:
        n = t.count('\n')
        for l in t.split('\n')[:n]:
            label = None
            if W in l:
                label = l.split(W + ':', 1)[1].strip() if (W + ':') in l else 'woven'
            linemap.append((origin, label))
        text += t
    return text, linemap, funcs, rewrites_info


def scan_text(unit_name, text):
    """mechanical scan of a generated Verus file for trusted constructs"""
    ass = []
    tlines = text.splitlines()
    for n, line in enumerate(tlines, 1):
        code = line.split('//')[0]
        for pat in ('assume_specification', 'external_body', 'admit(', 'assume(', 'verifier::external', 'verifier::truncate', 'axiom', 'uninterp spec fn'):
            if pat in code:
                what = code.strip()
                if 'external_body' in code and n < len(tlines):
                    k = n
                    while k < len(tlines) and (not tlines[k].strip() or tlines[k].strip().startswith('#[')):
                        k += 1
                    if k < len(tlines):
                        what += ' ' + tlines[k].strip()
                ass.append('verus %s.rs:%d: %s' % (unit_name, n, what[:170]))
                break
    return ass


def run_verus(path, extra=None, timeout=900):
    cmd = ['verus', path, '--output-json', '--time', '--error-format=json'] + (extra or [])
    if '--multiple-errors' not in cmd:
        cmd += ['--multiple-errors', '200']
    t0 = time.time()
    try:
        p = subprocess.run(cmd, capture_output=True, text=True, timeout=timeout, cwd=os.path.dirname(path))
    except subprocess.TimeoutExpired:
        raise Infra('verus wall-clock timeout after %ds on %s' % (timeout, path))
    dt = time.time() - t0
    try:
        js = json.loads(p.stdout[p.stdout.index('{'):]) if '{' in p.stdout else {}
    except ValueError:
        js = {}
    diags = []
    for line in p.stderr.splitlines():
        line = line.strip()
        if line.startswith('{'):
            try:
                diags.append(json.loads(line))
            except ValueError:
                pass
    return p.returncode, js, diags, p.stderr, dt, ' '.join(cmd)


def classify(msg):
    m = msg.lower()
    for u in UNDECIDED:
        if u in m:
            return 'undecided'
    if 'internal error' in m or 'not supported' in m or 'unsupported' in m:
        return 'infra'
    for f in PROOF_FAIL:
        if m.startswith(f) or (': ' + f) in m:
            return 'fail'
    return 'infra'


_MISSING = [
    (re.compile(r"cannot find function `(\w+)` in this scope"), None),
    (re.compile(r"no (?:method|function or associated item|associated function or constant|associated item) named `(\w+)` found for (?:struct|enum|type) `(\w+)"), 'ty'),
]


def find_missing_helpers(unit, diags):
    """helper functions the extracted items call but the unit does not list (e.g. introduced by a refactoring):
    locate them in the same source files so that the verified text stays the code that runs"""
    found = []
    files = list(dict.fromkeys(it['file'] for it in unit['items']))
    have = {it['item'] for it in unit['items']}
    for d in diags:
        if d.get('level') != 'error':
            continue
        msg = d.get('message', '')
        for rx, kind in _MISSING:
            m = rx.search(msg)
            if not m:
                continue
            name = m.group(1)
            ty = m.group(2) if kind else None
            for f in files:
                src = read(os.path.join(REPO, f))
                msk = rustscan.mask(src)
                cands = []
                if ty is None:
                    cands.append(('fn ' + name, None))
                # any impl block in that file that defines the fn
                for im in re.finditer(r'\bimpl\b[^{;]*\{', msk):
                    header = ' '.join(msk[im.start():im.end() - 1].split())
                    header_n = re.sub(r'^impl<[^>]*>', 'impl', header)
                    header_n = re.sub(r'\bwhere\b.*$', '', header_n).strip()
                    tyname = header_n.split(' for ')[-1].replace('impl', '').strip()
                    base_ty = re.sub(r'<.*', '', tyname)
                    if ty is not None and base_ty != ty:
                        continue
                    cands.append((header_n + ' :: fn ' + name, 'impl ' + tyname if ' for ' in header_n else header_n))
                for path, wrap in cands:
                    if path in have:
                        continue
                    try:
                        it = rustscan.find_item(src, path, msk)
                    except rustscan.ScanError:
                        continue
                    item = {'file': f, 'item': path, 'fn': name, 'attrs': 'drop', 'auto_included': True}
                    if wrap:
                        item['wrap'] = wrap
                    found.append(item)
                    have.add(path)
                    break
    return found


def run_unit(unit, obs, tier, seed, keep=False):
    unit = dict(unit)
    unit['items'] = list(unit['items'])
    auto = []
    for _round in range(4):
        try:
            res = _run_unit_once(unit, obs, tier, seed, keep)
            res['auto_included'] = [a['item'] for a in auto]
            if auto:
                res['assumptions'] = res['assumptions'] + [
                    'auto-included helper without contract (callers see no postcondition of it): %s' % a['item'] for a in auto]
            return res
        except MissingItems as e:
            new = find_missing_helpers(unit, e.diags)
            if not new:
                raise Infra(e.msg)
            auto += new
            unit['items'] += new
    raise Infra('could not close the set of extracted items after 4 rounds')


class MissingItems(Exception):
    def __init__(self, msg, diags):
        self.msg, self.diags = msg, diags


def _run_unit_once(unit, obs, tier, seed, keep=False):
    scratch = new_scratch('verus-' + unit['unit'])
    try:
        text, linemap, funcs, rw = build_unit(unit)
        path = os.path.join(scratch, unit['unit'] + '.rs')
        write(path, text)
        os.makedirs(os.path.join(VERIF, 'evidence', 'logs'), exist_ok=True)
        write(os.path.join(VERIF, 'evidence', 'logs', unit['unit'] + '.generated.rs'), text)
        extra = list(unit.get('verus_flags', []))
        if unit.get('rlimit'):
            extra += ['--rlimit', str(unit['rlimit'])]
        seeds = [None]
        if tier == 'thorough':
            base = seed or 1
            seeds = [None, base * 7919 % 100000 + 1, base * 104729 % 100000 + 2]
        all_results = []
        total_dt = 0
        cmd_s = ''
        for sd in seeds:
            ex = list(extra)
            if sd is not None:
                ex += ['--smt-option', 'smt.random_seed=%d' % sd]
            rc, js, diags, stderr, dt, cmd = run_verus(path, ex, timeout=unit.get('verus_timeout', 900))
            total_dt += dt
            cmd_s = cmd_s or cmd
            all_results.append(_interpret(unit, obs, linemap, rc, js, diags, stderr, text))
        first = all_results[0]
        for other in all_results[1:]:
            for k in first['results']:
                if other['results'][k]['status'] != first['results'][k]['status']:
                    raise Infra('verus verdict for %s differs between SMT seeds (%s vs %s): unstable proof' % (
                        k, first['results'][k]['status'], other['results'][k]['status']))
        first['cmd'] = cmd_s.replace(scratch, '<scratch>')
        first['time_s'] = round(total_dt, 2)
        first['functions'] = funcs
        ass = []
        for r in rw:
            ass.append('extraction rewrite in %s: %s -> %s (%d sites)' % (r['item'], r['pattern'], r['replacement'], r['sites']))
        ass += scan_text(unit['unit'], text)
        first['assumptions'] = ass
        first['degraded'] = list(dict.fromkeys(DEGRADED))
        first['seeds'] = len(seeds)
        return first
    finally:
        if not keep:
            rm_scratch(scratch)


def _interpret(unit, obs, linemap, rc, js, diags, stderr, text):
    vr = js.get('verification-results', {})
    by_key = {}
    for ob in obs:
        by_key[(ob['fn'], ob.get('label', 'safe'))] = ob
    results = {ob['id']: {'status': 'discharged', 'backend': 'verus', 'messages': []} for ob in obs}
    canary_hit = set()
    errors = [d for d in diags if d.get('level') == 'error' and not d.get('message', '').startswith('aborting due to')]
    lines = text.split('\n')
    unmapped = []
    for d in errors:
        msg = d.get('message', '')
        cls = classify(msg)
        spans = d.get('spans', [])
        prim = [s for s in spans if s.get('is_primary')] or spans
        if not prim:
            raise Infra('verus error without span: ' + msg[:500])
        ln = prim[0]['line_start']
        origin, label = linemap[ln - 1] if ln - 1 < len(linemap) else (('gen', None), None)
        if origin[0] == 'canary':
            canary_hit.add(origin[1])
            continue
        if cls == 'infra':
            text_ = 'verus rejected the generated file (not a proof failure): %s @ line %d: %s' % (msg[:600], ln, lines[ln - 1].strip()[:200] if ln - 1 < len(lines) else '')
            if any(rx.search(msg) for rx, _ in _MISSING):
                raise MissingItems(text_, diags)
            raise Infra(text_)
        fn = origin[1] if origin[0] == 'item' else None
        # a failing labelled clause may be reported with the primary span on it, or on a secondary span
        labels = []
        for s in spans:
            o2, l2 = linemap[s['line_start'] - 1] if s['line_start'] - 1 < len(linemap) else ((None,), None)
            if o2[0] == 'item' and l2 and l2 not in ('kw', 'hint', 'woven', 'derive'):
                labels.append((o2[1], l2, s.get('is_primary')))
        target = None
        prim_labels = [x for x in labels if x[2]]
        for (f2, l2, _) in prim_labels + labels:
            if (f2, l2) in by_key:
                target = by_key[(f2, l2)]
                break
        if target is None and fn is not None:
            target = by_key.get((fn, 'safe'))
        if target is None and origin[0] == 'prelude':
            target = by_key.get(('prelude', 'lemmas'))
        entry = {'message': msg, 'line': ln, 'text': lines[ln - 1].strip()[:200] if ln - 1 < len(lines) else ''}
        if target is None:
            unmapped.append(entry)
            continue
        r = results[target['id']]
        r['messages'].append(entry)
        if cls == 'undecided':
            if r['status'] == 'discharged':
                r['status'] = 'undecided'
                r['why'] = msg[:200]
        else:
            r['status'] = 'failed'
    if unmapped:
        # a failing obligation inside the unit that belongs to another property: it does not
        # decide this property, but report it in the evidence
        pass
    for c in unit.get('canaries', []):
        if c['name'] not in canary_hit:
            raise Infra('vacuity canary %s VERIFIED: the precondition %r is contradictory' % (c['name'], c['requires']))
    if not errors and not vr.get('success', False):
        raise Infra('verus did not report success and gave no diagnostics:\n' + stderr[-2000:])
    if vr.get('encountered-vir-error'):
        raise Infra('verus VIR error:\n' + stderr[-2000:])
    return {'results': results, 'verus_verified': vr.get('verified'), 'verus_errors': vr.get('errors'),
            'unmapped': unmapped}

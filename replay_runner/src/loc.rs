//! Bounded native check of the lint-level clause of C09 (public API only): a diagnostic about a register is located on exactly
//! that register operand — a use-type diagnostic on a register the instruction reads, a definition-type diagnostic on the
//! register it writes — and every diagnostic lies on one line inside the file.
use riscv_analysis::parser::{EmptyFileReader, InstructionProperties, RVParser, RVStringParser, Register};
use riscv_analysis::passes::DiagnosticLocation;
use std::panic::{catch_unwind, AssertUnwindSafe};
use std::str::FromStr;

const USE_KINDS: [&str; 2] = ["Invalid use after call", "Invalid use before assignment"];
const DEF_KINDS: [&str; 4] = ["Unused value", "Lost register value", "Overwrite callee-saved register", "Saving to zero register"];

pub fn check_program(src: &str) -> Result<usize, String> {
    let lines: Vec<Vec<char>> = src.split('\n').map(|l| l.chars().collect()).collect();
    let diags = catch_unwind(AssertUnwindSafe(|| {
        let mut parser = RVParser::new(EmptyFileReader::new(src));
        parser.run(EmptyFileReader::get_file_path())
    })).map_err(|_| format!("the analyzer panicked on {src:?}"))?;
    let (nodes, _) = RVStringParser::parse_from_text(src);
    let mut seen = 0;
    for d in &diags {
        let (sl, sc, el, ec) = (d.range.start().zero_idx_line(), d.range.start().zero_idx_column(), d.range.end().zero_idx_line(), d.range.end().zero_idx_column());
        if sl != el || sl >= lines.len() || sc > ec || ec >= lines[sl].len() + 1 {
            return Err(format!("`{}` is located at {sl}:{sc} - {el}:{ec}, which is not a stretch of one line of the file; program: {src:?}", d.title));
        }
        let text: String = lines[sl].iter().skip(sc).take(ec + 1 - sc).collect();
        // a diagnostic that names labels sits on one of them
        for prefix in ["Labels not defined: ", "Duplicate label: "] {
            if let Some(names) = d.title.strip_prefix(prefix) {
                let t = text.trim().trim_end_matches(':');
                if !names.split(", ").any(|n| n.trim() == t) {
                    return Err(format!("`{}` is located on {text:?} (line {sl}, columns {sc}..={ec}), which is none of the labels it names; program: {src:?}", d.title));
                }
            }
        }
        let is_use = USE_KINDS.contains(&d.title.as_str());
        let is_def = DEF_KINDS.contains(&d.title.as_str());
        if !is_use && !is_def { continue; }
        // `ret` reads the saved registers without naming them: such a diagnostic sits on the instruction
        let Ok(reg) = Register::from_str(text.trim()) else {
            if text.trim().split_whitespace().next().map_or(false, |m| ["ret", "uret", "ecall", "jal", "call", "jalr", "jr"].contains(&m)) { continue; }
            return Err(format!("`{}` is about a register but is located on {text:?} (line {sl}, columns {sc}..={ec}); program: {src:?}", d.title));
        };
        let Some(node) = nodes.iter().find(|n| n.is_instruction() && n.range().start().zero_idx_line() == sl && n.range().start().zero_idx_column() <= sc && n.range().end().zero_idx_column() >= ec) else {
            return Err(format!("`{}` on {text:?} (line {sl}) is not inside any instruction; program: {src:?}", d.title));
        };
        seen += 1;
        if is_use && !node.reads_from().iter().any(|r| *r.get() == reg) {
            return Err(format!("`{}` is located on {text:?}, which `{}` does not read; program: {src:?}", d.title, lines[sl].iter().collect::<String>().trim()));
        }
        if is_def && node.writes_to().map(|r| *r.get()) != Some(reg) {
            return Err(format!("`{}` is located on {text:?}, which `{}` does not write; program: {src:?}", d.title, lines[sl].iter().collect::<String>().trim()));
        }
    }
    Ok(seen)
}

/// two files: a diagnostic's range must designate, in the file it names, the text it is about
fn check_two_files(main: &str, lib: &str) -> Result<(), String> {
    use riscv_analysis::reader::{FileReader, FileReaderError};
    use std::collections::HashMap;
    use uuid::Uuid;
    #[derive(Clone, Default)]
    struct Mem { disk: HashMap<String, String>, read: HashMap<Uuid, String>, base: Option<Uuid> }
    impl FileReader for Mem {
        fn import_file(&mut self, path: &str, _p: Option<Uuid>) -> Result<(Uuid, String), FileReaderError> {
            if self.read.values().any(|p| p == path) { return Err(FileReaderError::FileAlreadyRead(path.to_string())); }
            let text = self.disk.get(path).ok_or(FileReaderError::InvalidPath)?.clone();
            let id = Uuid::new_v4(); self.read.insert(id, path.to_string()); self.base.get_or_insert(id); Ok((id, text))
        }
        fn get_text(&self, u: Uuid) -> Option<String> { self.disk.get(self.read.get(&u)?).cloned() }
        fn get_filename(&self, u: Uuid) -> Option<String> { self.read.get(&u).cloned() }
        fn get_base_file(&self) -> Option<Uuid> { self.base }
    }
    let mut disk = HashMap::new();
    disk.insert("main.s".to_string(), main.to_string());
    disk.insert("lib.s".to_string(), lib.to_string());
    let mut parser = RVParser::new(Mem { disk: disk.clone(), ..Default::default() });
    let diags = parser.run("main.s");
    for d in &diags {
        let Some(name) = parser.reader.get_filename(d.file) else { return Err(format!("`{}` names a file that was never read; files: {main:?} / {lib:?}", d.title)); };
        let text = &disk[&name];
        let lines: Vec<Vec<char>> = text.split('\n').map(|l| l.chars().collect()).collect();
        let (sl, sc, el, ec) = (d.range.start().zero_idx_line(), d.range.start().zero_idx_column(), d.range.end().zero_idx_line(), d.range.end().zero_idx_column());
        if sl != el || sl >= lines.len() || sc > ec || ec > lines[sl].len() { return Err(format!("`{}` is located at {name} {sl}:{sc}-{el}:{ec}, not a stretch of one line of that file; files: {main:?} / {lib:?}", d.title)); }
        let shown: String = lines[sl].iter().skip(sc).take(ec + 1 - sc).collect();
        for prefix in ["Labels not defined: ", "Duplicate label: "] {
            if let Some(names) = d.title.strip_prefix(prefix) {
                let t = shown.trim().trim_end_matches(':');
                if !names.split(", ").any(|n| n.trim() == t) { return Err(format!("`{}` is located on {shown:?} in {name}, which is none of the labels it names; files: {main:?} / {lib:?}", d.title)); }
            }
        }
    }
    Ok(())
}

pub fn search(v: &serde_json::Value) -> i32 {
    if let Some(src) = v.get("inputs").and_then(|i| i.get("program")).and_then(|s| s.as_str()) {
        return match check_program(src) { Err(w) => { println!("witness: {w}"); 1 } Ok(n) => { println!("{n} register diagnostics of {src:?} are on the right operand"); 0 } };
    }
    let mut total = 0;
    let layouts: [(&str, &str); 3] = [("", ""), ("# header\n\n", ""), ("", "   # trailing comment")];
    let mut n = 0;
    for p in crate::symm::programs() {
        for (pre, tail) in layouts {
            // layout variants: a header before the program, a comment after every statement
            let text: String = format!("{pre}{}", p.split('\n').map(|l| if l.trim().is_empty() || tail.is_empty() { l.to_string() } else { format!("{l}{tail}") }).collect::<Vec<_>>().join("\n"));
            n += 1;
            match check_program(&text) { Err(w) => { println!("witness: {w}"); return 1; } Ok(k) => total += k }
        }
    }
    // a diagnostic given for every instruction of a region lands once on each of them - also on an instruction that a pass
    // has rewritten (the second `ret` of a function becomes a jump to the first)
    for (src, title, lines) in [("main:\n jal f\n li a7, 10\n ecall\n.data\nf: beqz a0, L\n ret\nL: ret\n", "Invalid segment", vec![5usize, 6, 7])] {
        for _ in 0..6 {
            n += 1;
            let diags = match catch_unwind(AssertUnwindSafe(|| { let mut p = RVParser::new(EmptyFileReader::new(src)); p.run(EmptyFileReader::get_file_path()) })) { Ok(d) => d, Err(_) => { println!("witness: the analyzer panicked on {src:?}"); return 1; } };
            let mut got: Vec<usize> = diags.iter().filter(|d| d.title == title).map(|d| d.range.start().zero_idx_line()).collect();
            got.sort();
            if got != lines { println!("witness: `{title}` is expected once on each of the lines {lines:?}, it is reported on {got:?}; program: {src:?}"); return 1; }
        }
    }
    // undefined / duplicate labels spread over two files (file ids are random: several runs)
    for (main, lib) in [(".include \"lib.s\"\nmain:\n    li a7, 10\n    ecall\n    j missing_in_main\n", "j gone\n"),
                        ("main:\n    jal foo\n    li a7, 10\n    ecall\n.include \"lib.s\"\n", "helper:\n    jal bar\n    ret\n"),
                        (".include \"lib.s\"\nmain:\n    li a7, 10\n    ecall\nhelper:\n    ret\n", "helper:\n    ret\n")] {
        for _ in 0..8 { n += 1; if let Err(w) = check_two_files(main, lib) { println!("witness: {w}"); return 1; } }
    }
    if total < 20 { println!("error: the pool produces only {total} register diagnostics"); return 2; }
    println!("no misplaced diagnostic among {total} register diagnostics of {n} program layouts (use-type diagnostics on a register the instruction reads, definition-type diagnostics on the register it writes, label diagnostics on one of the labels they name, in the file they name, every diagnostic on one line inside its file)");
    0
}

// ===== unit `decode`: ParserNode::try_from over an abstract token stream =====
#[derive(Clone, Copy, PartialEq, Eq, Structural)]
pub struct Uuid { pub v: u128 }
impl Uuid {
    /// uuid::Uuid::new_v4(): some fresh identifier (never inspected by the decoder)
    #[verifier::external_body]
    pub fn new_v4() -> Uuid { unimplemented!() }
}
#[derive(Clone)]
pub struct StringLexError { pub v: u8 }
pub struct Lexer { pub v: u8 }

pub type RegisterToken = With<Register>;
pub type LabelStringToken = With<LabelString>;

/// std::iter::Peekable<Lexer>, modelled as the sequence of items the lexer will still produce (ASSUMED contract of a
/// std type; the lexer unit proves that this sequence exists: Lexer::next terminates and makes progress).
pub struct Peekable<T> { pub inner: T }
impl Peekable<Lexer> {
    pub uninterp spec fn remaining(&self) -> Seq<Result<Token, LexError>>;
    #[verifier::external_body]
    pub fn next(&mut self) -> (r: Option<Result<Token, LexError>>)
        ensures
            match r {
                Some(x) => old(self).remaining().len() > 0 && x == old(self).remaining()[0] && final(self).remaining() == old(self).remaining().skip(1),
                None => old(self).remaining().len() == 0 && final(self).remaining() == old(self).remaining(),
            },
    { unimplemented!() }
    #[verifier::external_body]
    pub fn peek(&mut self) -> (r: Option<&Result<Token, LexError>>)
        ensures
            final(self).remaining() == old(self).remaining(),
            match r {
                Some(x) => old(self).remaining().len() > 0 && *x == old(self).remaining()[0],
                None => old(self).remaining().len() == 0,
            },
    { unimplemented!() }
}

impl<T> With<T> {
    pub closed spec fn sdata(self) -> T { self.underlying_data }
    pub closed spec fn stoken(self) -> Token { self.token }
}
impl Imm { pub closed spec fn sval(self) -> i32 { self.0 } }
impl Token {
    pub closed spec fn s_type(self) -> TokenType { self.token_type }
    pub closed spec fn s_raw(self) -> RawToken { self.raw_token }
}

// ---- models of derives (trusted: field-wise) ----
impl<T: Clone> Clone for With<T> {
    #[verifier::external_body]
    fn clone(&self) -> (r: Self) ensures r == *self { unimplemented!() }
}
impl Clone for Token {
    #[verifier::external_body]
    fn clone(&self) -> (r: Self) ensures r == *self { unimplemented!() }
}
impl Clone for RawToken {
    #[verifier::external_body]
    fn clone(&self) -> (r: Self) ensures r == *self { unimplemented!() }
}
impl Clone for Imm {
    #[verifier::external_body]
    fn clone(&self) -> (r: Self) ensures r == *self { unimplemented!() }
}
impl Clone for LabelString {
    #[verifier::external_body]
    fn clone(&self) -> (r: Self) ensures r == *self { unimplemented!() }
}
impl Clone for LexError {
    #[verifier::external_body]
    fn clone(&self) -> (r: Self) ensures r == *self { unimplemented!() }
}
impl Default for RawToken {
    #[verifier::external_body]
    fn default() -> (r: Self) { unimplemented!() }
}

// ---- what a token denotes as an operand: uninterpreted here; the functions computing them are under contract elsewhere
// ---- (Register::from_str in unit regs, Imm::from_str in unit imm) or trusted (LabelString, CsrImm names, mnemonic table)
pub uninterp spec fn reg_of(t: Token) -> Option<Register>;
pub uninterp spec fn imm_of(t: Token) -> Option<Imm>;
pub uninterp spec fn label_of(t: Token) -> Option<LabelString>;
pub uninterp spec fn csr_of(t: Token) -> Option<CsrImm>;
pub uninterp spec fn inst_of(s: Seq<char>) -> Option<Inst>;
pub uninterp spec fn directive_of(s: Seq<char>) -> Option<DirectiveToken>;
pub uninterp spec fn labelstr_of(s: Seq<char>) -> Option<LabelString>;

impl Token {
    // Token::as_reg / as_imm / as_label / as_csrimm are built on a generic helper with closures (`as_type`), outside Verus:
    // ASSUMED contracts (they wrap T::try_from(token) into With<T> carrying the token, or report Expected)
    #[verifier::external_body]
    pub fn as_reg(&self) -> (r: Result<RegisterToken, LexError>)
        ensures match r { Ok(w) => reg_of(*self) == Some(w.sdata()) && w.stoken() == *self, Err(e) => reg_of(*self) is None && e is Expected }
    { unimplemented!() }
    #[verifier::external_body]
    pub fn as_imm(&self) -> (r: Result<With<Imm>, LexError>)
        ensures match r { Ok(w) => imm_of(*self) == Some(w.sdata()) && w.stoken() == *self, Err(e) => imm_of(*self) is None && e is Expected }
    { unimplemented!() }
    #[verifier::external_body]
    pub fn as_label(&self) -> (r: Result<LabelStringToken, LexError>)
        ensures match r { Ok(w) => label_of(*self) == Some(w.sdata()) && w.stoken() == *self, Err(e) => label_of(*self) is None && e is Expected }
    { unimplemented!() }
    #[verifier::external_body]
    pub fn as_csrimm(&self) -> (r: Result<With<CsrImm>, LexError>)
        ensures match r { Ok(w) => csr_of(*self) == Some(w.sdata()) && w.stoken() == *self, Err(e) => csr_of(*self) is None && e is Expected }
    { unimplemented!() }
}
impl Inst {
    #[verifier::external_body]
    pub fn from_str(s: &str) -> (r: Result<Inst, ()>)
        ensures match r { Ok(i) => inst_of(s@) == Some(i), Err(_) => inst_of(s@) is None }
    { unimplemented!() }
}
impl DirectiveToken {
    #[verifier::external_body]
    pub fn from_str(s: &str) -> (r: Result<DirectiveToken, ()>)
        ensures match r { Ok(i) => directive_of(s@) == Some(i), Err(_) => directive_of(s@) is None }
    { unimplemented!() }
}
impl LabelString {
    #[verifier::external_body]
    pub fn from_str(s: &str) -> (r: Result<LabelString, ()>)
        ensures match r { Ok(i) => labelstr_of(s@) == Some(i), Err(_) => labelstr_of(s@) is None }
    { unimplemented!() }
}

/// get_any hands out exactly the next item of the stream (an error at its end) and consumes it
pub open spec fn took_next(before: Seq<Result<Token, LexError>>, after: Seq<Result<Token, LexError>>, r: Result<Token, LexError>) -> bool {
    if before.len() == 0 {
        r is Err && after == before
    } else {
        r == before[0] && after == before.skip(1)
    }
}
impl AnnotatedLexer<'_> {
    /// AnnotatedLexer::get_any: contract PROVED on the real body in unit `getany` (obligation getany.get_any.stream);
    /// callers here are checked against it
    #[verifier::external_body]
    fn get_any(&mut self) -> (r: Result<Token, LexError>)
        ensures took_next(old(self).lexer.remaining(), final(self).lexer.remaining(), r)
    { unimplemented!() }
}

// =====================  abstract meaning of a node (what the decode table is stated over)  =====================
pub enum Opd { Reg(Register), Imm(int) }
/// reading x0 is reading the constant 0
pub open spec fn opd_reg(r: Register) -> Opd { if r == Register::X0 { Opd::Imm(0) } else { Opd::Reg(r) } }

pub enum AluOp { Add, Sub, And, Or, Xor, Sll, Srl, Sra, Slt, Sltu, Mul, Mulh, Mulhsu, Mulhu, Div, Divu, Rem, Remu,
                 Addw, Sllw, Srlw, Sraw, Divw, Remw, Remuw }
pub open spec fn alu_of_arith(t: ArithType) -> AluOp {
    match t {
        ArithType::Add => AluOp::Add, ArithType::Addw => AluOp::Addw, ArithType::And => AluOp::And, ArithType::Or => AluOp::Or,
        ArithType::Sll => AluOp::Sll, ArithType::Sllw => AluOp::Sllw, ArithType::Slt => AluOp::Slt, ArithType::Sltu => AluOp::Sltu,
        ArithType::Sra => AluOp::Sra, ArithType::Sraw => AluOp::Sraw, ArithType::Srl => AluOp::Srl, ArithType::Srlw => AluOp::Srlw,
        ArithType::Sub => AluOp::Sub, ArithType::Xor => AluOp::Xor, ArithType::Mul => AluOp::Mul, ArithType::Mulh => AluOp::Mulh,
        ArithType::Mulhsu => AluOp::Mulhsu, ArithType::Mulhu => AluOp::Mulhu, ArithType::Div => AluOp::Div, ArithType::Divu => AluOp::Divu,
        ArithType::Divw => AluOp::Divw, ArithType::Rem => AluOp::Rem, ArithType::Remu => AluOp::Remu, ArithType::Remw => AluOp::Remw,
        ArithType::Remuw => AluOp::Remuw,
    }
}
pub enum Sem {
    Alu { op: AluOp, rd: Register, a: Opd, b: Opd },
    Const { rd: Register, value: int },                         // lui: rd <- operand * 4096
    PcRel { rd: Register, a: Opd, value: int },                 // auipc (as this tool represents it)
    Branch { bt: BranchType, a: Register, b: Register, target: LabelString },
    Jump { rd: Register, target: LabelString },
    JumpR { rd: Register, rs1: Register, imm: int },
    Load { t: LoadType, rd: Register, rs1: Register, imm: int },
    Store { t: StoreType, rs1: Register, rs2: Register, imm: int },
    Csr { t: CsrType, rd: Register, csr: CsrImm, rs1: Register },
    CsrI { t: CsrIType, rd: Register, csr: CsrImm, imm: int },
    La { rd: Register, target: LabelString },
    Basic { t: BasicType },
    Other,
}
pub open spec fn sem(n: ParserNode) -> Sem {
    match n {
        ParserNode::Arith(x) => Sem::Alu { op: alu_of_arith(x.inst.sdata()), rd: x.rd.sdata(), a: opd_reg(x.rs1.sdata()), b: opd_reg(x.rs2.sdata()) },
        ParserNode::IArith(x) => {
            let (rd, a, imm) = (x.rd.sdata(), opd_reg(x.rs1.sdata()), x.imm.sdata().sval() as int);
            match x.inst.sdata() {
                IArithType::Addi => Sem::Alu { op: AluOp::Add, rd, a, b: Opd::Imm(imm) },
                IArithType::Addiw => Sem::Alu { op: AluOp::Addw, rd, a, b: Opd::Imm(imm) },
                IArithType::Andi => Sem::Alu { op: AluOp::And, rd, a, b: Opd::Imm(imm) },
                IArithType::Ori => Sem::Alu { op: AluOp::Or, rd, a, b: Opd::Imm(imm) },
                IArithType::Xori => Sem::Alu { op: AluOp::Xor, rd, a, b: Opd::Imm(imm) },
                IArithType::Slli => Sem::Alu { op: AluOp::Sll, rd, a, b: Opd::Imm(imm) },
                IArithType::Slliw => Sem::Alu { op: AluOp::Sllw, rd, a, b: Opd::Imm(imm) },
                IArithType::Srli => Sem::Alu { op: AluOp::Srl, rd, a, b: Opd::Imm(imm) },
                IArithType::Srliw => Sem::Alu { op: AluOp::Srlw, rd, a, b: Opd::Imm(imm) },
                IArithType::Srai => Sem::Alu { op: AluOp::Sra, rd, a, b: Opd::Imm(imm) },
                IArithType::Sraiw => Sem::Alu { op: AluOp::Sraw, rd, a, b: Opd::Imm(imm) },
                IArithType::Slti => Sem::Alu { op: AluOp::Slt, rd, a, b: Opd::Imm(imm) },
                IArithType::Sltiu => Sem::Alu { op: AluOp::Sltu, rd, a, b: Opd::Imm(imm) },
                IArithType::Lui => Sem::Const { rd, value: imm },
                IArithType::Auipc => Sem::PcRel { rd, a, value: imm },
            }
        },
        ParserNode::Branch(x) => Sem::Branch { bt: x.inst.sdata(), a: x.rs1.sdata(), b: x.rs2.sdata(), target: x.name.sdata() },
        ParserNode::JumpLink(x) => Sem::Jump { rd: x.rd.sdata(), target: x.name.sdata() },
        ParserNode::JumpLinkR(x) => Sem::JumpR { rd: x.rd.sdata(), rs1: x.rs1.sdata(), imm: x.imm.sdata().sval() as int },
        ParserNode::Load(x) => Sem::Load { t: x.inst.sdata(), rd: x.rd.sdata(), rs1: x.rs1.sdata(), imm: x.imm.sdata().sval() as int },
        ParserNode::Store(x) => Sem::Store { t: x.inst.sdata(), rs1: x.rs1.sdata(), rs2: x.rs2.sdata(), imm: x.imm.sdata().sval() as int },
        ParserNode::Csr(x) => Sem::Csr { t: x.inst.sdata(), rd: x.rd.sdata(), csr: x.csr.sdata(), rs1: x.rs1.sdata() },
        ParserNode::CsrI(x) => Sem::CsrI { t: x.inst.sdata(), rd: x.rd.sdata(), csr: x.csr.sdata(), imm: x.imm.sdata().sval() as int },
        ParserNode::LoadAddr(x) => Sem::La { rd: x.rd.sdata(), target: x.name.sdata() },
        ParserNode::Basic(x) => Sem::Basic { t: x.inst.sdata() },
        _ => Sem::Other,
    }
}

// =====================  the manual's table: mnemonic + operand tokens -> meaning  =====================
/// operand tokens of the statement: s[1], s[2], ... (s[0] is the mnemonic)
pub open spec fn tk(s: Seq<Result<Token, LexError>>, k: int) -> Token { s[k]->Ok_0 }
pub open spec fn have(s: Seq<Result<Token, LexError>>, n: int) -> bool { s.len() >= n && forall|k: int| 0 <= k < n ==> (#[trigger] s[k]) is Ok }
pub open spec fn rg(s: Seq<Result<Token, LexError>>, k: int) -> Register { reg_of(tk(s, k))->Some_0 }
pub open spec fn im(s: Seq<Result<Token, LexError>>, k: int) -> int { imm_of(tk(s, k))->Some_0.sval() as int }
pub open spec fn lb(s: Seq<Result<Token, LexError>>, k: int) -> LabelString { label_of(tk(s, k))->Some_0 }
pub open spec fn cs(s: Seq<Result<Token, LexError>>, k: int) -> CsrImm { csr_of(tk(s, k))->Some_0 }
pub open spec fn is_reg(s: Seq<Result<Token, LexError>>, k: int) -> bool { s[k] is Ok && reg_of(tk(s, k)) is Some }
pub open spec fn is_imm(s: Seq<Result<Token, LexError>>, k: int) -> bool { s[k] is Ok && imm_of(tk(s, k)) is Some }
pub open spec fn is_lbl(s: Seq<Result<Token, LexError>>, k: int) -> bool { s[k] is Ok && label_of(tk(s, k)) is Some }
pub open spec fn is_csr(s: Seq<Result<Token, LexError>>, k: int) -> bool { s[k] is Ok && csr_of(tk(s, k)) is Some }
pub open spec fn is_lp(s: Seq<Result<Token, LexError>>, k: int) -> bool { s[k] is Ok && tk(s, k).s_type() is LParen }
pub open spec fn is_rp(s: Seq<Result<Token, LexError>>, k: int) -> bool { s[k] is Ok && tk(s, k).s_type() is RParen }

pub open spec fn rtype(i: Inst) -> Option<AluOp> {
    match i {
        Inst::Add => Some(AluOp::Add), Inst::Addw => Some(AluOp::Addw), Inst::And => Some(AluOp::And), Inst::Or => Some(AluOp::Or),
        Inst::Sll => Some(AluOp::Sll), Inst::Sllw => Some(AluOp::Sllw), Inst::Slt => Some(AluOp::Slt), Inst::Sltu => Some(AluOp::Sltu),
        Inst::Sra => Some(AluOp::Sra), Inst::Sraw => Some(AluOp::Sraw), Inst::Srl => Some(AluOp::Srl), Inst::Srlw => Some(AluOp::Srlw),
        Inst::Sub => Some(AluOp::Sub), Inst::Xor => Some(AluOp::Xor), Inst::Mul => Some(AluOp::Mul), Inst::Mulh => Some(AluOp::Mulh),
        Inst::Mulhsu => Some(AluOp::Mulhsu), Inst::Mulhu => Some(AluOp::Mulhu), Inst::Div => Some(AluOp::Div), Inst::Divu => Some(AluOp::Divu),
        Inst::Divw => Some(AluOp::Divw), Inst::Rem => Some(AluOp::Rem), Inst::Remu => Some(AluOp::Remu), Inst::Remw => Some(AluOp::Remw),
        Inst::Remuw => Some(AluOp::Remuw),
        _ => None,
    }
}
pub open spec fn itype(i: Inst) -> Option<AluOp> {
    match i {
        Inst::Addi => Some(AluOp::Add), Inst::Addiw => Some(AluOp::Addw), Inst::Andi => Some(AluOp::And), Inst::Ori => Some(AluOp::Or),
        Inst::Xori => Some(AluOp::Xor), Inst::Slli => Some(AluOp::Sll), Inst::Slliw => Some(AluOp::Sllw), Inst::Srli => Some(AluOp::Srl),
        Inst::Srliw => Some(AluOp::Srlw), Inst::Srai => Some(AluOp::Sra), Inst::Sraiw => Some(AluOp::Sraw), Inst::Slti => Some(AluOp::Slt),
        Inst::Sltiu => Some(AluOp::Sltu),
        _ => None,
    }
}
pub open spec fn ltype(i: Inst) -> Option<LoadType> {
    match i { Inst::Lb => Some(LoadType::Lb), Inst::Lbu => Some(LoadType::Lbu), Inst::Lh => Some(LoadType::Lh), Inst::Lhu => Some(LoadType::Lhu),
              Inst::Lw => Some(LoadType::Lw), Inst::Lwu => Some(LoadType::Lwu), _ => None }
}
pub open spec fn stype(i: Inst) -> Option<StoreType> {
    match i { Inst::Sb => Some(StoreType::Sb), Inst::Sh => Some(StoreType::Sh), Inst::Sw => Some(StoreType::Sw), _ => None }
}
pub open spec fn btype(i: Inst) -> Option<BranchType> {
    match i { Inst::Beq => Some(BranchType::Beq), Inst::Bne => Some(BranchType::Bne), Inst::Blt => Some(BranchType::Blt), Inst::Bge => Some(BranchType::Bge),
              Inst::Bltu => Some(BranchType::Bltu), Inst::Bgeu => Some(BranchType::Bgeu), _ => None }
}
pub open spec fn ctype(i: Inst) -> Option<CsrType> {
    match i { Inst::Csrrw => Some(CsrType::Csrrw), Inst::Csrrs => Some(CsrType::Csrrs), Inst::Csrrc => Some(CsrType::Csrrc), _ => None }
}
pub open spec fn citype(i: Inst) -> Option<CsrIType> {
    match i { Inst::Csrrwi => Some(CsrIType::Csrrwi), Inst::Csrrsi => Some(CsrIType::Csrrsi), Inst::Csrrci => Some(CsrIType::Csrrci), _ => None }
}

pub enum Klass { R(AluOp), I(AluOp), Lui, Auipc, Load(LoadType), Store(StoreType), Branch(BranchType), Jal, Jalr, Csr(CsrType), CsrI(CsrIType),
                 Basic(BasicType), Pseudo(PseudoType), Ignore }
/// instruction format of a mnemonic, from the same manual tables
pub open spec fn klass(i: Inst) -> Klass {
    if rtype(i) is Some { Klass::R(rtype(i)->Some_0) }
    else if itype(i) is Some { Klass::I(itype(i)->Some_0) }
    else if ltype(i) is Some { Klass::Load(ltype(i)->Some_0) }
    else if stype(i) is Some { Klass::Store(stype(i)->Some_0) }
    else if btype(i) is Some { Klass::Branch(btype(i)->Some_0) }
    else if ctype(i) is Some { Klass::Csr(ctype(i)->Some_0) }
    else if citype(i) is Some { Klass::CsrI(citype(i)->Some_0) }
    else if pseudo_name(i) is Some { Klass::Pseudo(pseudo_name(i)->Some_0) }
    else if i == Inst::Lui { Klass::Lui } else if i == Inst::Auipc { Klass::Auipc }
    else if i == Inst::Jal { Klass::Jal } else if i == Inst::Jalr { Klass::Jalr }
    else if i == Inst::Ecall { Klass::Basic(BasicType::Ecall) } else if i == Inst::Ebreak { Klass::Basic(BasicType::Ebreak) }
    else if i == Inst::Uret { Klass::Basic(BasicType::Uret) }
    else { Klass::Ignore }
}

/// `official(k, s, m)`: reading the statement of format `k` whose tokens are s[0], s[1], ... may yield meaning `m`.
/// (How many tokens were consumed is not stated: Verus cannot resolve the final value of the `&mut Peekable` that
/// try_from stores in a struct field, so the stream after the call is not visible in its postcondition.)
/// One line per mnemonic / operand form of the RISC-V assembly manual (RARS operand order for the csr pseudo-ops and `b`).
pub open spec fn official(k: Klass, s: Seq<Result<Token, LexError>>, m: Sem) -> bool {
    let x0 = Register::X0;
    let ra = Register::X1;
    match k {
        Klass::R(op) => is_reg(s, 1) && is_reg(s, 2) && is_reg(s, 3)
            && m == Sem::Alu { op, rd: rg(s, 1), a: opd_reg(rg(s, 2)), b: opd_reg(rg(s, 3)) },
        Klass::I(op) => is_reg(s, 1) && is_reg(s, 2) && is_imm(s, 3)
            && m == Sem::Alu { op, rd: rg(s, 1), a: opd_reg(rg(s, 2)), b: Opd::Imm(im(s, 3)) },
        // lui rd, imm: rd <- imm * 4096 as a 32-bit value, imm a 20-bit operand (anything else must be rejected)
        Klass::Lui => is_reg(s, 1) && is_imm(s, 2) && 0 <= im(s, 2) <= 0xF_FFFF
            && (m matches Sem::Const { rd, value } && rd == rg(s, 1) && value == to_i32w(im(s, 2) * 4096)),
        // auipc rd, imm: same operand form and range; the tool represents the result as "pc-relative, upper part imm * 4096"
        Klass::Auipc => is_reg(s, 1) && is_imm(s, 2) && 0 <= im(s, 2) <= 0xF_FFFF
            && (m matches Sem::PcRel { rd, a, value } && rd == rg(s, 1) && a == Opd::Imm(0) && value == to_i32w(im(s, 2) * 4096)),
        Klass::Load(t) =>
            (is_reg(s, 1) && is_imm(s, 2) && is_lp(s, 3) && is_reg(s, 4) && is_rp(s, 5) && m == Sem::Load { t, rd: rg(s, 1), rs1: rg(s, 4), imm: im(s, 2) })
            || (is_reg(s, 1) && is_lp(s, 2) && is_reg(s, 3) && is_rp(s, 4) && m == Sem::Load { t, rd: rg(s, 1), rs1: rg(s, 3), imm: 0 })
            || (is_reg(s, 1) && is_imm(s, 2) && m == Sem::Load { t, rd: rg(s, 1), rs1: x0, imm: im(s, 2) }),   // absolute address
        Klass::Store(t) =>
            (is_reg(s, 1) && is_imm(s, 2) && is_lp(s, 3) && is_reg(s, 4) && is_rp(s, 5) && m == Sem::Store { t, rs1: rg(s, 4), rs2: rg(s, 1), imm: im(s, 2) })
            || (is_reg(s, 1) && is_lp(s, 2) && is_reg(s, 3) && is_rp(s, 4) && m == Sem::Store { t, rs1: rg(s, 3), rs2: rg(s, 1), imm: 0 })
            || (is_reg(s, 1) && is_imm(s, 2) && m == Sem::Store { t, rs1: x0, rs2: rg(s, 1), imm: im(s, 2) }),
        Klass::Branch(bt) => is_reg(s, 1) && is_reg(s, 2) && is_lbl(s, 3) && m == Sem::Branch { bt, a: rg(s, 1), b: rg(s, 2), target: lb(s, 3) },
        Klass::Jal =>
            (is_lbl(s, 1) && m == Sem::Jump { rd: ra, target: lb(s, 1) })
            || (is_reg(s, 1) && is_lbl(s, 2) && m == Sem::Jump { rd: rg(s, 1), target: lb(s, 2) }),
        Klass::Jalr =>
            (is_reg(s, 1) && is_reg(s, 2) && is_imm(s, 3) && m == Sem::JumpR { rd: rg(s, 1), rs1: rg(s, 2), imm: im(s, 3) })
            || (is_reg(s, 1) && is_imm(s, 2) && is_lp(s, 3) && is_reg(s, 4) && is_rp(s, 5) && m == Sem::JumpR { rd: rg(s, 1), rs1: rg(s, 4), imm: im(s, 2) })
            || (is_reg(s, 1) && is_lp(s, 2) && is_reg(s, 3) && is_rp(s, 4) && m == Sem::JumpR { rd: rg(s, 1), rs1: rg(s, 3), imm: 0 })
            || (is_reg(s, 1) && is_imm(s, 2) && m == Sem::JumpR { rd: ra, rs1: rg(s, 1), imm: im(s, 2) })
            || (is_reg(s, 1) && m == Sem::JumpR { rd: ra, rs1: rg(s, 1), imm: 0 }),     // `jalr rs` (+ the token after it)
        Klass::Csr(t) => is_reg(s, 1) && is_csr(s, 2) && is_reg(s, 3) && m == Sem::Csr { t, rd: rg(s, 1), csr: cs(s, 2), rs1: rg(s, 3) },
        Klass::CsrI(t) => is_reg(s, 1) && is_csr(s, 2) && is_imm(s, 3) && m == Sem::CsrI { t, rd: rg(s, 1), csr: cs(s, 2), imm: im(s, 3) },
        Klass::Basic(t) => m == Sem::Basic { t },
        Klass::Ignore => false,
        // ---- pseudo-instructions: the meaning of the official expansion ----
        Klass::Pseudo(p) => match p {
            PseudoType::Ret => m == Sem::JumpR { rd: x0, rs1: ra, imm: 0 },
            PseudoType::Nop => m == Sem::Alu { op: AluOp::Add, rd: x0, a: Opd::Imm(0), b: Opd::Imm(0) },
            PseudoType::Mv => is_reg(s, 1) && is_reg(s, 2) && m == Sem::Alu { op: AluOp::Add, rd: rg(s, 1), a: opd_reg(rg(s, 2)), b: Opd::Imm(0) },
            PseudoType::Li => is_reg(s, 1) && is_imm(s, 2) && m == Sem::Alu { op: AluOp::Add, rd: rg(s, 1), a: Opd::Imm(0), b: Opd::Imm(im(s, 2)) },
            PseudoType::La => is_reg(s, 1) && is_lbl(s, 2) && m == Sem::La { rd: rg(s, 1), target: lb(s, 2) },
            PseudoType::Neg => is_reg(s, 1) && is_reg(s, 2) && m == Sem::Alu { op: AluOp::Sub, rd: rg(s, 1), a: Opd::Imm(0), b: opd_reg(rg(s, 2)) },
            PseudoType::Not => is_reg(s, 1) && is_reg(s, 2) && m == Sem::Alu { op: AluOp::Xor, rd: rg(s, 1), a: opd_reg(rg(s, 2)), b: Opd::Imm(-1) },
            PseudoType::Seqz => is_reg(s, 1) && is_reg(s, 2) && m == Sem::Alu { op: AluOp::Sltu, rd: rg(s, 1), a: opd_reg(rg(s, 2)), b: Opd::Imm(1) },
            PseudoType::Snez => is_reg(s, 1) && is_reg(s, 2) && m == Sem::Alu { op: AluOp::Sltu, rd: rg(s, 1), a: Opd::Imm(0), b: opd_reg(rg(s, 2)) },
            PseudoType::Sltz => is_reg(s, 1) && is_reg(s, 2) && m == Sem::Alu { op: AluOp::Slt, rd: rg(s, 1), a: opd_reg(rg(s, 2)), b: Opd::Imm(0) },
            PseudoType::Sgtz => is_reg(s, 1) && is_reg(s, 2) && m == Sem::Alu { op: AluOp::Slt, rd: rg(s, 1), a: Opd::Imm(0), b: opd_reg(rg(s, 2)) },
            PseudoType::J => is_lbl(s, 1) && m == Sem::Jump { rd: x0, target: lb(s, 1) },
            PseudoType::B => is_lbl(s, 1) && m == Sem::Jump { rd: x0, target: lb(s, 1) },
            PseudoType::Jr => is_reg(s, 1) && m == Sem::JumpR { rd: x0, rs1: rg(s, 1), imm: 0 },
            PseudoType::Call => is_lbl(s, 1) && m == Sem::Jump { rd: ra, target: lb(s, 1) },
            PseudoType::Beqz => is_reg(s, 1) && is_lbl(s, 2) && m == Sem::Branch { bt: BranchType::Beq, a: rg(s, 1), b: x0, target: lb(s, 2) },
            PseudoType::Bnez => is_reg(s, 1) && is_lbl(s, 2) && m == Sem::Branch { bt: BranchType::Bne, a: rg(s, 1), b: x0, target: lb(s, 2) },
            PseudoType::Bltz => is_reg(s, 1) && is_lbl(s, 2) && m == Sem::Branch { bt: BranchType::Blt, a: rg(s, 1), b: x0, target: lb(s, 2) },
            PseudoType::Bgez => is_reg(s, 1) && is_lbl(s, 2) && m == Sem::Branch { bt: BranchType::Bge, a: rg(s, 1), b: x0, target: lb(s, 2) },
            PseudoType::Bgtz => is_reg(s, 1) && is_lbl(s, 2) && m == Sem::Branch { bt: BranchType::Blt, a: x0, b: rg(s, 1), target: lb(s, 2) },
            PseudoType::Blez => is_reg(s, 1) && is_lbl(s, 2) && m == Sem::Branch { bt: BranchType::Bge, a: x0, b: rg(s, 1), target: lb(s, 2) },
            PseudoType::Bgt => is_reg(s, 1) && is_reg(s, 2) && is_lbl(s, 3) && m == Sem::Branch { bt: BranchType::Blt, a: rg(s, 2), b: rg(s, 1), target: lb(s, 3) },
            PseudoType::Ble => is_reg(s, 1) && is_reg(s, 2) && is_lbl(s, 3) && m == Sem::Branch { bt: BranchType::Bge, a: rg(s, 2), b: rg(s, 1), target: lb(s, 3) },
            PseudoType::Bgtu => is_reg(s, 1) && is_reg(s, 2) && is_lbl(s, 3) && m == Sem::Branch { bt: BranchType::Bltu, a: rg(s, 2), b: rg(s, 1), target: lb(s, 3) },
            PseudoType::Bleu => is_reg(s, 1) && is_reg(s, 2) && is_lbl(s, 3) && m == Sem::Branch { bt: BranchType::Bgeu, a: rg(s, 2), b: rg(s, 1), target: lb(s, 3) },
            PseudoType::Sgez => true,   // KNOWN FINDING (carve-out `sgez`): not a RISC-V / RARS mnemonic with this shape; parsed as a branch
            PseudoType::Csrr => is_reg(s, 1) && is_csr(s, 2) && m == Sem::Csr { t: CsrType::Csrrs, rd: rg(s, 1), csr: cs(s, 2), rs1: x0 },
            PseudoType::Csrw => is_reg(s, 1) && is_csr(s, 2) && m == Sem::Csr { t: CsrType::Csrrw, rd: x0, csr: cs(s, 2), rs1: rg(s, 1) },
            PseudoType::Csrs => is_reg(s, 1) && is_csr(s, 2) && m == Sem::Csr { t: CsrType::Csrrs, rd: x0, csr: cs(s, 2), rs1: rg(s, 1) },
            PseudoType::Csrc => is_reg(s, 1) && is_csr(s, 2) && m == Sem::Csr { t: CsrType::Csrrc, rd: x0, csr: cs(s, 2), rs1: rg(s, 1) },
            PseudoType::Csrwi => is_csr(s, 1) && is_imm(s, 2) && m == Sem::CsrI { t: CsrIType::Csrrwi, rd: x0, csr: cs(s, 1), imm: im(s, 2) },
            PseudoType::Csrsi => is_csr(s, 1) && is_imm(s, 2) && m == Sem::CsrI { t: CsrIType::Csrrsi, rd: x0, csr: cs(s, 1), imm: im(s, 2) },
            PseudoType::Csrci => is_csr(s, 1) && is_imm(s, 2) && m == Sem::CsrI { t: CsrIType::Csrrci, rd: x0, csr: cs(s, 1), imm: im(s, 2) },
        },
    }
}
/// `v << 12` on a 20-bit operand is multiplication by 4096 in 32-bit two's complement
pub proof fn lemma_shl12(v: i32)
    requires 0 <= v <= 0xFFFFF,
    ensures (v << 12) as int == to_i32w(v as int * 4096),
{
    let u = v as u32;
    assert((v << 12) as u32 == u << 12u32) by(bit_vector) requires u == v as u32;
    assert(u << 12u32 == (u * 4096u32) as u32) by(bit_vector) requires u <= 0xFFFFFu32;
    assert(u * 4096 <= 0xFFFFF000u32) by(nonlinear_arith) requires u <= 0xFFFFF;
    assert(v < 0x80000 ==> (v << 12) >= 0) by(bit_vector) requires 0 <= v <= 0xFFFFF;
    assert(v >= 0x80000 ==> (v << 12) < 0) by(bit_vector) requires 0 <= v <= 0xFFFFF;
    assert(((v << 12) as u32) as int == if (v << 12) >= 0 { (v << 12) as int } else { (v << 12) as int + 0x1_0000_0000 }) by(bit_vector);
}
pub open spec fn to_i32w(v: int) -> int { let m = v % 0x1_0000_0000; if m < 0x8000_0000 { m } else { m - 0x1_0000_0000 } }

/// Post-condition of ParserNode::try_from on instruction statements: if the first token is a mnemonic and a node is
/// returned, the node means what the manual assigns to the operand tokens that follow the mnemonic.
pub open spec fn decoded(before: Seq<Result<Token, LexError>>, r: Result<ParserNode, LexError>) -> bool {
    (before.len() > 0 && before[0] is Ok && r is Ok
        && (tk(before, 0).s_type() matches TokenType::Symbol(m) && inst_of(m@) is Some))
    ==> official(klass(inst_of(tk(before, 0).s_type()->Symbol_0@)->Some_0), before, sem(r->Ok_0))
}

// =====================  contracts of the operand readers and of Type::from  =====================
pub open spec fn took_reg(b: Seq<Result<Token, LexError>>, a: Seq<Result<Token, LexError>>, r: Result<With<Register>, LexError>) -> bool {
    if b.len() == 0 {
        r is Err && a == b
    } else {
        &&& a == b.skip(1)
        &&& match b[0] {
                Ok(t) => match r { Ok(w) => reg_of(t) == Some(w.sdata()) && w.stoken() == t, Err(_) => reg_of(t) is None },
                Err(_) => r is Err,
            }
    }
}
pub open spec fn took_imm(b: Seq<Result<Token, LexError>>, a: Seq<Result<Token, LexError>>, r: Result<With<Imm>, LexError>) -> bool {
    if b.len() == 0 {
        r is Err && a == b
    } else {
        &&& a == b.skip(1)
        &&& match b[0] {
                Ok(t) => match r { Ok(w) => imm_of(t) == Some(w.sdata()) && w.stoken() == t, Err(_) => imm_of(t) is None },
                Err(_) => r is Err,
            }
    }
}
pub open spec fn took_label(b: Seq<Result<Token, LexError>>, a: Seq<Result<Token, LexError>>, r: Result<With<LabelString>, LexError>) -> bool {
    if b.len() == 0 {
        r is Err && a == b
    } else {
        &&& a == b.skip(1)
        &&& match b[0] {
                Ok(t) => match r { Ok(w) => label_of(t) == Some(w.sdata()) && w.stoken() == t, Err(_) => label_of(t) is None },
                Err(_) => r is Err,
            }
    }
}
pub open spec fn took_csr(b: Seq<Result<Token, LexError>>, a: Seq<Result<Token, LexError>>, r: Result<With<CsrImm>, LexError>) -> bool {
    if b.len() == 0 {
        r is Err && a == b
    } else {
        &&& a == b.skip(1)
        &&& match b[0] {
                Ok(t) => match r { Ok(w) => csr_of(t) == Some(w.sdata()) && w.stoken() == t, Err(_) => csr_of(t) is None },
                Err(_) => r is Err,
            }
    }
}
pub open spec fn iarith_alu(a: IArithType) -> Option<AluOp> {
    match a {
        IArithType::Addi => Some(AluOp::Add), IArithType::Addiw => Some(AluOp::Addw), IArithType::Andi => Some(AluOp::And),
        IArithType::Ori => Some(AluOp::Or), IArithType::Xori => Some(AluOp::Xor), IArithType::Slli => Some(AluOp::Sll),
        IArithType::Slliw => Some(AluOp::Sllw), IArithType::Srli => Some(AluOp::Srl), IArithType::Srliw => Some(AluOp::Srlw),
        IArithType::Srai => Some(AluOp::Sra), IArithType::Sraiw => Some(AluOp::Sraw), IArithType::Slti => Some(AluOp::Slt),
        IArithType::Sltiu => Some(AluOp::Sltu), IArithType::Lui => None, IArithType::Auipc => None,
    }
}
/// name correspondence between the mnemonic and the pseudo-instruction tag
pub open spec fn pseudo_name(i: Inst) -> Option<PseudoType> {
    match i {
        Inst::Beqz => Some(PseudoType::Beqz), Inst::Bnez => Some(PseudoType::Bnez), Inst::Bltz => Some(PseudoType::Bltz), Inst::Bgez => Some(PseudoType::Bgez),
        Inst::J => Some(PseudoType::J), Inst::Jr => Some(PseudoType::Jr), Inst::La => Some(PseudoType::La), Inst::Li => Some(PseudoType::Li),
        Inst::Mv => Some(PseudoType::Mv), Inst::Neg => Some(PseudoType::Neg), Inst::Nop => Some(PseudoType::Nop), Inst::Not => Some(PseudoType::Not),
        Inst::Ret => Some(PseudoType::Ret), Inst::Seqz => Some(PseudoType::Seqz), Inst::Snez => Some(PseudoType::Snez), Inst::Sgtz => Some(PseudoType::Sgtz),
        Inst::Sltz => Some(PseudoType::Sltz), Inst::Sgez => Some(PseudoType::Sgez), Inst::B => Some(PseudoType::B), Inst::Call => Some(PseudoType::Call),
        Inst::Bgt => Some(PseudoType::Bgt), Inst::Ble => Some(PseudoType::Ble), Inst::Bgtu => Some(PseudoType::Bgtu), Inst::Bleu => Some(PseudoType::Bleu),
        Inst::Bgtz => Some(PseudoType::Bgtz), Inst::Blez => Some(PseudoType::Blez), Inst::Csrc => Some(PseudoType::Csrc), Inst::Csrr => Some(PseudoType::Csrr),
        Inst::Csrs => Some(PseudoType::Csrs), Inst::Csrw => Some(PseudoType::Csrw), Inst::Csrci => Some(PseudoType::Csrci), Inst::Csrsi => Some(PseudoType::Csrsi),
        Inst::Csrwi => Some(PseudoType::Csrwi),
        _ => None,
    }
}
pub open spec fn type_klass(i: Inst, t: Type) -> bool {
    match t {
        Type::Arith(a) => klass(i) == Klass::R(alu_of_arith(a)),
        Type::IArith(a) => iarith_alu(a) is Some && klass(i) == Klass::I(iarith_alu(a)->Some_0),
        Type::UpperArith(a) => (a == IArithType::Lui && klass(i) == Klass::Lui) || (a == IArithType::Auipc && klass(i) == Klass::Auipc),
        Type::Load(l) => klass(i) == Klass::Load(l),
        Type::Store(x) => klass(i) == Klass::Store(x),
        Type::Branch(b) => klass(i) == Klass::Branch(b),
        Type::Csr(c) => klass(i) == Klass::Csr(c),
        Type::CsrI(c) => klass(i) == Klass::CsrI(c),
        Type::Basic(b) => klass(i) == Klass::Basic(b),
        Type::JumpLink(_) => klass(i) == Klass::Jal,
        Type::JumpLinkR(_) => klass(i) == Klass::Jalr,
        Type::Ignore(_) => klass(i) == Klass::Ignore,
        Type::Pseudo(p) => klass(i) == Klass::Pseudo(p),
    }
}
/// Type::from(&i) classifies the mnemonic as the manual's instruction format says
pub open spec fn type_spec(i: Inst, t: Type) -> bool {
    type_klass(i, t) && match t {
        Type::Arith(a) => rtype(i) == Some(alu_of_arith(a)),
        Type::IArith(a) => itype(i) is Some && iarith_alu(a) == itype(i),
        Type::UpperArith(a) => (i == Inst::Lui && a == IArithType::Lui) || (i == Inst::Auipc && a == IArithType::Auipc),
        Type::Load(l) => ltype(i) == Some(l),
        Type::Store(x) => stype(i) == Some(x),
        Type::Branch(b) => btype(i) == Some(b),
        Type::Csr(c) => ctype(i) == Some(c),
        Type::CsrI(c) => citype(i) == Some(c),
        Type::Basic(b) => (i == Inst::Ecall && b == BasicType::Ecall) || (i == Inst::Ebreak && b == BasicType::Ebreak) || (i == Inst::Uret && b == BasicType::Uret),
        Type::JumpLink(_) => i == Inst::Jal,
        Type::JumpLinkR(_) => i == Inst::Jalr,
        Type::Ignore(_) => i == Inst::Fence || i == Inst::Fencei,
        Type::Pseudo(p) => pseudo_name(i) == Some(p),
    }
}

/// `item.clone()` on `&Result<Token, LexError>` in peek_any (rewrite R10): vstd gives Result::clone no usable
/// postcondition; cloning a Result of field-wise cloneable values preserves the value (trusted)
#[verifier::external_body]
pub fn verif_clone_item(item: &Result<Token, LexError>) -> (r: Result<Token, LexError>)
    ensures r == *item,
{ unimplemented!() }

# U1 (Verus half) — MathOp::operate over mathematical integers.
# Decides the value clause for rem/remu (where SAT cannot prove uniqueness of division)
# and re-proves add/sub/slt/sltu/div/divu independently of Kani.
UNIT = {
    'unit': 'ops_v',
    'backend': 'verus',
    'prelude': ['verus/ops_spec.rs'],
    'uses': ['use vstd::std_specs::convert::FromSpec;'],
    'items': [
        {'file': 'riscv_analysis/src/cfg/ops.rs', 'item': 'enum MathOp', 'attrs': 'drop'},
        {'file': 'riscv_analysis/src/cfg/ops.rs', 'item': 'impl MathOp :: fn operate', 'wrap': 'impl MathOp',
         'fn': 'operate', 'ret': 'r', 'attrs': 'keep',
         'ensures': [('post.value', 'rv32_defined(*self) ==> r as int == rv32_int(*self, x as int, y as int)')],
         'body_start': ['proof {',
                        '    lemma_casts(); axiom_from_std();',
                        '    lemma_mul_bounds(x as int, y as int);',
                        '    lemma_mul_bounds(x as int, to_u32(y as int));',
                        '    lemma_umul_bounds(to_u32(x as int), to_u32(y as int));',
                        '}'],
         },
    ],
    'functions': [{'file': 'riscv_analysis/src/cfg/ops.rs', 'item': 'impl MathOp :: fn operate'}],
    'obligations': [
        {'id': 'ops_v.operate.post.value', 'fn': 'operate', 'label': 'post.value',
         'props': ['C08', 'C01'], 'kind': 'proof',
         'clause': 'operate(op, x, y) == rv32_int(op, x, y) over mathematical integers for op in '
                   '{add, sub, slt, sltu, div, divu, rem, remu} (the only discharge of the rem/remu value clause)',
         'search': ['ops-search']},
        {'id': 'ops_v.operate.safe', 'fn': 'operate', 'label': 'safe',
         'props': ['C08', 'C06'], 'kind': 'proof',
         'clause': 'no arithmetic overflow, no division by zero, callee preconditions hold in every arm of operate',
         'search': ['ops-search']},
    ],
}

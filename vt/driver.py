"""check driver: decides one property with the contract units that serve it."""
import glob
import shutil
import importlib.util
import json
import os
import re
import subprocess
import sys
import time

from . import kani as kani_mod
from . import rustscan
from .common import CONTRACTS, Infra, REPO, VERIF, log, read, sha256, write

LEVELS = json.load(open(os.path.join(CONTRACTS, 'properties.json')))


def load_units(only_enabled=True):
    units = {}
    enabled = set(read(os.path.join(CONTRACTS, 'units', 'ENABLED')).split())
    for p in sorted(glob.glob(os.path.join(CONTRACTS, 'units', '*.py'))):
        if only_enabled and os.path.basename(p)[:-3] not in enabled:
            continue
        spec = importlib.util.spec_from_file_location('unit_' + os.path.basename(p)[:-3], p)
        mod = importlib.util.module_from_spec(spec)
        spec.loader.exec_module(mod)
        u = mod.UNIT
        units[u['unit']] = u
    return units


def known_findings():
    path = os.path.join(VERIF, 'KNOWN_FINDINGS.txt')
    findings, fixed = [], []
    if os.path.exists(path):
        for line in read(path).splitlines():
            line = line.strip()
            if line.startswith('finding:'):
                kv = dict(re.findall(r'(\w+)=("[^"]*"|\S+)', line))
                kv = {k: v.strip('"') for k, v in kv.items()}
                kv['line'] = line
                findings.append(kv)
            elif line.startswith('fixed:'):
                fixed.append(line)
    return findings, fixed


def functions_under_contract(units):
    out = []
    for u in units:
        for f in u.get('functions', []):
            src = read(os.path.join(REPO, f['file']))
            it = rustscan.find_item(src, f['item'])
            out.append({'unit': u['unit'], 'file': f['file'], 'item': f['item'], 'line': it.line(),
                        'sha256': sha256(it.text), 'backend': u['backend']})
    return out


def tier_ok(ob, tier):
    return tier == 'thorough' or ob.get('tier', 'quick') == 'quick'


def _finding_text(line, pid):
    """text of a `finding:` line without the leading keyword and without its own property=<id> field"""
    t = line[len('finding:'):].strip()
    pre = 'property=%s' % pid
    return t[len(pre):].strip() if t.startswith(pre) else t


def run_property(pid, tier, seed):
    from . import verus as verus_mod
    t0 = time.time()
    units = load_units()
    sel = []  # (unit, obligation)
    for u in units.values():
        if u.get('tier') == 'thorough' and tier != 'thorough':
            continue
        for ob in u['obligations']:
            if pid in ob['props'] and tier_ok(ob, tier):
                sel.append((u, ob))
    if not sel:
        raise Infra('no obligations registered for %s' % pid)
    results = {}   # ob id -> dict
    cmds = []
    solver_time = {}
    assumptions = []
    involved = {u['unit']: u for u, _ in sel}

    # ---------------- Kani ----------------
    kani_sel = [(u, ob) for u, ob in sel if u['backend'] == 'kani']
    if kani_sel:
        sess = kani_mod.KaniSession(pid)
        try:
            woven = set()
            broken = {}
            allu = load_units(only_enabled=False)
            needed = []
            for u, _ in kani_sel:
                for dep in u.get('requires_units', []):
                    if allu[dep] not in needed:
                        needed.append(allu[dep])
            for u in needed + [u for u, _ in kani_sel]:
                if u['unit'] not in woven and u['unit'] not in broken:
                    try:
                        sess.weave(u)
                        woven.add(u['unit'])
                    except (Infra, rustscan.ScanError) as e:
                        broken[u['unit']] = str(e)[:600]
            for u, ob in kani_sel:
                if u['unit'] in broken:
                    results[ob['id']] = {'status': 'undecided', 'backend': 'kani', 'why': 'weave of unit %s failed: %s' % (u['unit'], broken[u['unit']])}
            kani_sel = [(u, ob) for u, ob in kani_sel if u['unit'] not in broken]
            by_crate = {}
            for u, ob in kani_sel:
                by_crate.setdefault(u['crate'], []).append((u, ob))
            for crate, lst in by_crate.items():
                # group by timeout so that one slow harness does not inflate the others' limit
                harnesses = [ob['harness'] for _, ob in lst]
                tmax = max(ob.get('timeout', 120) for _, ob in lst)
                if seed:
                    import random
                    random.Random(seed).shuffle(harnesses)
                parsed, out, dt, cmd = sess.run(crate, harnesses, tmax)
                cmds.append(cmd)
                write(os.path.join(VERIF, 'evidence', 'logs', '%s.kani.%s.log' % (pid, crate)), out[-400000:])
                for u, ob in lst:
                    r = parsed[ob['harness']]
                    solver_time[ob['id']] = r.get('time_s')
                    st = r['status']
                    if st == 'SUCCESSFUL':
                        res = {'status': 'discharged'}
                    elif st == 'FAILED':
                        res = {'status': 'failed', 'failed_checks': r['failed_checks']}
                    else:
                        res = {'status': 'undecided', 'why': st}
                    res['backend'] = 'kani-complete' if ob['kind'] == 'complete' else 'kani-bounded'
                    res['summary'] = r.get('summary', '')
                    results[ob['id']] = res
                # counterexamples for failures
                failed = [(u, ob) for u, ob in lst if results[ob['id']]['status'] == 'failed']
                # concrete playback runs serially (Kani: incompatible with -j): fetch counterexamples for the cheapest few
                failed.sort(key=lambda t: (solver_time.get(t[1]['id']) or 1e9))
                failed = failed[:3]
                if failed:
                    pb, pout = sess.playback(crate, [ob['harness'] for _, ob in failed],
                                             max(ob.get('timeout', 120) for _, ob in failed))
                    write(os.path.join(VERIF, 'evidence', 'logs', '%s.kani.%s.playback.log' % (pid, crate)), pout[-400000:])
                    for u, ob in failed:
                        res = results[ob['id']]
                        vals = pb.get(ob['harness'])
                        res['playback'] = vals
                        res['inputs'] = kani_mod.decode_inputs(vals, ob.get('inputs', [])) if vals else None
            for w in sess.weaves:
                assumptions.append('kani weave (insertion-only, identity-checked): %s +%d attr lines%s' % (
                    w['file'], w['inserted_lines'], (', appended ' + w['appended']) if w['appended'] else ''))
        finally:
            sess.close()

    # ---------------- native bounded stand-ins (never counted as proved) ----------------
    for u, ob in sel:
        if u['backend'] != 'native':
            continue
        from . import replay as replay_mod
        tn = time.time()
        confirmed, text = replay_mod.run_replay({'replay': ob['recipe'], 'inputs': None, 'timeout': ob.get('timeout')})
        solver_time[ob['id']] = round(time.time() - tn, 2)
        cmds.append('replay_runner ' + ' '.join(ob['recipe']))
        if confirmed is True:
            results[ob['id']] = {'status': 'failed', 'backend': 'native-bounded', 'messages': [{'message': text[:600]}], 'witness': text, 'native_confirmed': True}
        elif confirmed is False:
            results[ob['id']] = {'status': 'discharged', 'backend': 'native-bounded', 'summary': text[:300]}
        else:
            results[ob['id']] = {'status': 'undecided', 'backend': 'native-bounded', 'why': text[:300]}

    # ---------------- Verus ----------------
    verus_units = {}
    for u, ob in sel:
        if u['backend'] == 'verus':
            verus_units.setdefault(u['unit'], (u, []))[1].append(ob)
    for name, (u, obs) in verus_units.items():
        try:
            vr = verus_mod.run_unit(u, obs, tier, seed)
        except (Infra, rustscan.ScanError) as e:
            # a tool limit in one unit leaves that unit's obligations undecided; the other units still decide theirs
            for ob in obs:
                results[ob['id']] = {'status': 'undecided', 'backend': 'verus', 'why': 'unit %s: %s' % (name, str(e)[:600])}
            continue
        cmds.append(vr['cmd'])
        solver_time['verus:' + name] = vr['time_s']
        assumptions += vr['assumptions']
        for ob in obs:
            results[ob['id']] = vr['results'][ob['id']]
            if vr.get('auto_included') or vr.get('degraded'):
                # the contracts could not be woven as written (helpers without contract, lost loop/anchor):
                # a failed proof is then a violation only if a failing input is found
                results[ob['id']]['auto_included'] = (vr.get('auto_included') or []) + (vr.get('degraded') or [])

    return finish(pid, tier, seed, sel, results, cmds, solver_time, assumptions, list(involved.values()), t0)


def scan_assumptions(units):
    """mechanical scan of contract sources for trusted constructs"""
    hits = []
    pats = ['assume(', 'admit(', 'external_body', 'assume_specification', 'kani::assume', 'kani::stub',
            'verifier::truncate', 'external_fn_specification', 'verifier::external']
    files = set()
    for u in units:
        for w in u.get('weave', []):
            if w.get('append'):
                files.add(os.path.join(CONTRACTS, w['append']))
        for f in u.get('verus_files', []):
            files.add(os.path.join(CONTRACTS, f))
    for f in sorted(files):
        if not os.path.exists(f):
            continue
        for n, line in enumerate(read(f).splitlines(), 1):
            code = line.split('//')[0]
            for p in pats:
                if p in code:
                    hits.append('%s:%d: %s' % (os.path.relpath(f, VERIF), n, line.strip()[:160]))
                    break
    return hits


def finish(pid, tier, seed, sel, results, cmds, solver_time, assumptions, units, t0):
    global VERIF
    if os.environ.get('VERIF_SELFTEST'):
        VERIF = '/var/tmp/rva-selftest/out'
        os.makedirs(VERIF, exist_ok=True)
        shutil.copy(os.path.join(os.path.dirname(os.path.dirname(os.path.abspath(__file__))), 'KNOWN_FINDINGS.txt'), VERIF)
    findings, fixed = known_findings()
    meta = LEVELS[pid]
    violations = []
    undecided = []
    known_lines = []
    proved = [ob for _, ob in sel if ob['kind'] != 'bounded']
    bounded = [ob for _, ob in sel if ob['kind'] == 'bounded']
    n_discharged = 0
    for ob in proved:
        r = results[ob['id']]
        if r['status'] == 'discharged':
            n_discharged += 1
    bounded_checks = []
    for ob in bounded:
        r = results[ob['id']]
        bounded_checks.append({'obligation': ob['id'], 'bound': ob.get('bound', ''), 'result': r['status'],
                               'clause': ob['clause']})
    for u, ob in sel:
        r = results[ob['id']]
        if r['status'] == 'failed':
            kf = [f for f in findings if f.get('property') == pid and f.get('obligation') == ob['id']]
            if kf:
                # a listed finding is only honoured when the unit says the failure is the listed one
                for f in kf:
                    known_lines.append('KNOWN-FINDING: property=%s %s' % (pid, _finding_text(f['line'], pid)))
                continue
            violations.append((u, ob, r))
        elif r['status'] == 'undecided':
            undecided.append((ob, r))
    # Known findings with a carve-out in a contract: the obligation is proved on the complement of the carved input class;
    # the listed witness is replayed natively on every run. While it still fails the KNOWN-FINDING line is printed; once it
    # no longer fails the line disappears (the carve-out should then be removed from the contract).
    for u in units:
        for kf in u.get('known_finding_witnesses', []):
            if pid not in kf['properties']:
                continue
            listed = [f for f in findings if f.get('property') in kf['properties'] and f.get('carve') == kf['carve']]
            if not listed:
                # a carve-out that is not in the committed list is a contract weakened without a record: refuse to decide
                undecided.append(({'id': '%s.carve.%s' % (u['unit'], kf['carve'])}, {'why': 'carve-out %s is not listed in KNOWN_FINDINGS.txt' % kf['carve']}))
                continue
            from . import replay as replay_mod
            confirmed, text = replay_mod.run_replay({'replay': kf['recipe'], 'inputs': None})
            if confirmed:
                known_lines.append('KNOWN-FINDING: property=%s %s' % (pid, _finding_text(listed[0]['line'], pid)))
    os.makedirs(os.path.join(VERIF, 'replay'), exist_ok=True)
    out_lines = []
    downgraded = []
    for u, ob, r in violations:
        rp = os.path.join(VERIF, 'replay', '%s.%s.json' % (pid, ob['id']))
        inputs = r.get('inputs')
        doc = {'property': pid, 'obligation': ob['id'], 'clause': ob['clause'], 'unit': u['unit'],
               'backend': r.get('backend'), 'verifier_reason': r.get('failed_checks') or r.get('messages'),
               'inputs': inputs, 'playback': r.get('playback'), 'replay': ob.get('replay'),
               'witness': r.get('witness')}
        confirmed = None
        if r.get('native_confirmed'):
            confirmed = True
            doc['replay'] = ob.get('recipe')
            doc['replay_output'] = r.get('witness')
            doc['replay_confirms_violation'] = True
        elif ob.get('replay') and (inputs or not ob.get('inputs')):
            from . import replay as replay_mod
            confirmed, text = replay_mod.run_replay(doc)
            doc['replay_output'] = text
            doc['replay_confirms_violation'] = confirmed
        elif ob.get('search'):
            # the verifier gave no model: run the unit's native counterexample finder (never the deciding step)
            from . import replay as replay_mod
            doc['replay'] = ob['search']
            confirmed, text = replay_mod.run_replay(doc)
            doc['replay_output'] = text
            doc['replay_confirms_violation'] = confirmed
            doc['witness'] = text if confirmed else None
        write(rp, json.dumps(doc, indent=1))
        if r.get('auto_included') and not confirmed:
            # the proof failed in code that had to be pulled in without a contract: undecided, not an alarm
            doc['downgraded'] = 'contracts could not be woven as written (%s); no native witness found' % r['auto_included']
            write(rp, json.dumps(doc, indent=1))
            downgraded.append((ob, r))
            continue
        tail = '' if confirmed else ' no-failing-input-found'
        out_lines.append('VIOLATION property=%s replay=%s obligation=%s%s' % (pid, rp, ob['id'], tail))

    samples = []
    seen_units = set()
    KEY = ('next.post', 'next.progress', 'get_any', '.table', 'contract', 'operate', 'tables', 'claims', 'files', 'gen_reg_value', 'iter.step', 'consistent')
    ranked = sorted(sel, key=lambda t: 0 if any(k in t[1]['id'] for k in KEY) else 1)
    pick = [t for t in ranked if t[0]['unit'] not in seen_units and not seen_units.add(t[0]['unit'])]   # one per unit first
    pick += [t for t in ranked if t not in pick and any(k in t[1]['id'] for k in KEY)][:6]
    pick += [t for t in sel if t not in pick][:max(0, 8 - len(pick))]
    for u, ob in pick[:12]:
        samples.append({'obligation': ob['id'], 'clause': ob['clause'], 'backend': results[ob['id']].get('backend'),
                        'result': results[ob['id']]['status']})
    by_backend = {}
    for u, ob in sel:
        r = results[ob['id']]
        if r['status'] == 'discharged':
            by_backend[r.get('backend', u['backend'])] = by_backend.get(r.get('backend', u['backend']), 0) + 1
    assumptions = list(dict.fromkeys(assumptions + scan_assumptions(units) + meta.get('assumptions', [])))
    # every assumption must be on the committed allow-list
    from . import trusted as trusted_mod
    allow = trusted_mod.listed()
    unlisted = [a for a in assumptions if allow is not None and trusted_mod.norm(a) not in allow
                and not a.startswith('auto-included helper')]
    for a in unlisted:
        undecided.append(({'id': 'trusted-base'}, {'why': 'assumption not listed in contracts/TRUSTED.md: ' + a[:200]}))
    level = meta['level']
    cov = {
        'obligations': len(proved),
        'discharged': n_discharged,
        'checker_cmd': ' ; '.join(cmds)[:2000],
        'trusted_base': meta.get('trusted_base', []),
        'samples': samples,
        'functions_under_contract': functions_under_contract(units),
        'by_backend': by_backend,
        'solver_time_s': solver_time,
        'bounded_checks': bounded_checks,
        'not_decided': meta.get('not_decided', []),
        'obligation_results': {ob['id']: results[ob['id']]['status'] for _, ob in sel},
        'known_findings_printed': known_lines,
    }
    if level != 'proof':
        # bounded-only properties: generic counts (checks evaluated, distinct harnesses)
        cov['evaluations'] = len(sel)
        cov['distinct_nontrivial'] = len({ob['id'] for _, ob in sel if results[ob['id']]['status'] in ('discharged',)})
        cov['rule'] = 'one evaluation per contract obligation / harness; distinct = distinct obligation ids whose harness ran to a verdict with satisfied covers'
    ev = {'property_id': pid, 'tier': tier, 'seed': seed, 'level': level, 'coverage': cov,
          'assumptions': assumptions, 'wall_s': round(time.time() - t0, 2), 'violations': len(out_lines)}
    write(os.path.join(VERIF, 'evidence', pid + '.json'), json.dumps(ev, indent=1))
    for l in known_lines:
        print(l)
    for l in out_lines:
        print(l)
    # Undecided obligations (tool limit): the unit's bounded native search still runs against the real code; a failing
    # input it finds is a real violation (replayed), its silence decides nothing (the check stays UNDECIDED).
    searched = {}
    for ob, r in list(undecided) + list(downgraded):
        rec = ob.get('search')
        if not rec or tuple(rec) in searched:
            continue
        from . import replay as replay_mod
        confirmed, text = replay_mod.run_replay({'replay': rec, 'inputs': None})
        searched[tuple(rec)] = (confirmed, text)
        if confirmed:
            oid = ob['id'].split('.')[0] + '.unit-undecided'
            rp = os.path.join(VERIF, 'replay', '%s.%s.json' % (pid, oid))
            write(rp, json.dumps({'property': pid, 'obligation': oid, 'clause': 'every obligation of unit %s (the verifier could not process the unit)' % ob['id'].split('.')[0], 'backend': 'native-bounded-search',
                                  'verifier_reason': 'verifier could not decide (%s); bounded native search over the real code found a failing input' % str(r.get('why'))[:300],
                                  'replay': rec, 'witness': text, 'replay_output': text, 'replay_confirms_violation': True}, indent=1))
            out_lines.append('VIOLATION property=%s replay=%s obligation=%s (verifier undecided; failing input found by the bounded native search)' % (pid, rp, oid))
            print(out_lines[-1])
    if searched:
        ev['violations'] = len(out_lines)
        ev['coverage']['bounded_native_search'] = [{'recipe': list(k), 'found_failing_input': bool(v[0]), 'output': str(v[1])[:400]} for k, v in searched.items()]
        write(os.path.join(VERIF, 'evidence', pid + '.json'), json.dumps(ev, indent=1))
    for ob, r in downgraded:
        undecided.append((ob, dict(r, why='proof failed where the contracts could not be woven as written (%s) and no failing input was found' % r.get('auto_included'))))
    if out_lines:
        return 1
    if undecided:
        by_reason = {}
        for ob, r in undecided:
            by_reason.setdefault(str(r.get('why'))[:300], []).append(ob['id'])
        for why, ids in by_reason.items():
            print('UNDECIDED property=%s obligations=%d (%s%s) reason=%s' % (pid, len(ids), ', '.join(ids[:3]), ', ...' if len(ids) > 3 else '', why))
        return 2
    print('OK property=%s tier=%s obligations=%d discharged=%d bounded=%d wall_s=%.1f' % (
        pid, tier, len(proved), n_discharged, len(bounded), time.time() - t0))
    return 0


def debug_unit(name, keep):
    from . import verus as verus_mod
    u = load_units(only_enabled=False)[name]
    if u['backend'] == 'verus':
        try:
            vr = verus_mod.run_unit(u, u['obligations'], 'quick', 0, keep=keep)
        except Infra as e:
            print('INFRA:', e)
            return 2
        for k, r in vr['results'].items():
            print(k, r['status'])
            for m in r.get('messages', []):
                print('    ', m['message'], '@', m['line'], m['text'])
        for m in vr.get('unmapped', []):
            print('UNMAPPED', m)
        print('verified fns:', vr['verus_verified'], 'errors:', vr['verus_errors'], 'time', vr['time_s'])
        return 0
    sess = kani_mod.KaniSession('unit-' + name)
    try:
        for dep in u.get('requires_units', []):
            sess.weave(load_units(only_enabled=False)[dep])
        sess.weave(u)
        hs = [ob['harness'] for ob in u['obligations']]
        parsed, out, dt, cmd = sess.run(u['crate'], hs, max(ob.get('timeout', 120) for ob in u['obligations']))
        write(os.path.join(VERIF, 'evidence', 'logs', 'unit.%s.kani.log' % name), out)
        for ob in u['obligations']:
            r = parsed[ob['harness']]
            print(ob['id'], r['status'], r.get('time_s'), r['failed_checks'][:3])
        print('wall', round(dt, 1))
    except Infra as e:
        print('INFRA:', e)
        return 2
    finally:
        if not keep:
            sess.close()
    return 0


def main(argv):
    if len(argv) >= 2 and argv[1] == 'replay':
        from . import replay as replay_mod
        doc = json.load(open(argv[2]))
        confirmed, text = replay_mod.run_replay(doc)
        print(text)
        return 1 if confirmed else 0
    if len(argv) >= 2 and argv[1] == 'selftest':
        from . import selftest
        return selftest.main(argv[2:])
    if len(argv) >= 3 and argv[1] == 'unit':
        return debug_unit(argv[2], '--keep' in argv)
    pid = argv[1]
    tier = os.environ.get('VERIF_TIER', 'quick')
    if '--tier' in argv:
        tier = argv[argv.index('--tier') + 1]
    seed = int(os.environ.get('VERIF_SEED', '0') or 0)
    try:
        return run_property(pid, tier, seed)
    except (Infra, rustscan.ScanError) as e:
        print('UNDECIDED property=%s infrastructure: %s' % (pid, str(e)[:3000]))
        return 2

// ---- text coordinates over the source (DESIGN section 4), written from the property statement ----
/// number of '\n' in s[0..p)
pub open spec fn count_nl(s: Seq<char>, p: int) -> int
    decreases p,
{
    if p <= 0 { 0 } else { count_nl(s, p - 1) + if s[p - 1] == '\n' { 1int } else { 0int } }
}
/// index just after the last '\n' in s[0..p), or 0
pub open spec fn line_start(s: Seq<char>, p: int) -> int
    decreases p,
{
    if p <= 0 { 0 } else if s[p - 1] == '\n' { p } else { line_start(s, p - 1) }
}
pub open spec fn line_of(s: Seq<char>, p: int) -> int { count_nl(s, p) }
pub open spec fn col_of(s: Seq<char>, p: int) -> int { p - line_start(s, p) }

pub proof fn lemma_coords_bounds(s: Seq<char>, p: int)
    requires 0 <= p,
    ensures 0 <= count_nl(s, p) <= p, 0 <= line_start(s, p) <= p,
    decreases p,
{
    if p > 0 { lemma_coords_bounds(s, p - 1); }
}

// closed accessors: the fields of Position / Range are private in the real code
impl Position {
    pub closed spec fn s_line(self) -> usize { self.line }
    pub closed spec fn s_column(self) -> usize { self.column }
    pub closed spec fn s_raw(self) -> usize { self.raw_index }
}
impl StringLexError {
    pub closed spec fn s_pos(self) -> Position { self.pos }
    pub closed spec fn s_kind(self) -> StringLexErrorType { self.kind }
}
impl RawToken {
    pub closed spec fn s_pos(self) -> Range { self.pos }
    pub closed spec fn s_file(self) -> Uuid { self.file }
    pub closed spec fn s_text(self) -> String { self.text }
}
impl Token {
    pub closed spec fn s_type(self) -> TokenType { self.token_type }
    pub closed spec fn s_raw(self) -> RawToken { self.raw_token }
}
impl Range {
    pub closed spec fn s_start(self) -> Position { self.start }
    pub closed spec fn s_end(self) -> Position { self.end }
}

/// A position is consistent with the text when its three coordinates designate the same character.
spec fn consistent(s: Seq<char>, p: Position) -> bool {
    &&& p.raw_index <= s.len()
    &&& p.line as int == line_of(s, p.raw_index as int)
    &&& p.column as int == col_of(s, p.raw_index as int)
}

// ---- representation invariant of the cursor (derived from the code) ----
spec fn wf(lx: Lexer) -> bool {
    &&& lx.pos <= lx.source.len()
    &&& lx.source.len() <= usize::MAX - 8      // input validity: a Vec<char> cannot be this long
    &&& lx.row as int == line_of(lx.source@, lx.pos as int)
    &&& lx.col as int == col_of(lx.source@, lx.pos as int)
}
spec fn same_text(a: Lexer, b: Lexer) -> bool { a.source@ == b.source@ && a.source_id == b.source_id }

pub open spec fn spec_is_ws(ch: char) -> bool { ch == ' ' || ch == '\t' || ch == '\r' || ch == ',' }

pub open spec fn spec_is_symbol_char(c: char) -> bool { ('a' <= c && c <= 'z') || ('A' <= c && c <= 'Z') || c == '_' || c == '-' }
pub open spec fn spec_is_symbol_item(c: char) -> bool { spec_is_symbol_char(c) || ('0' <= c && c <= '9') }
pub open spec fn spec_is_hex(c: char) -> bool { ('0' <= c && c <= '9') || ('a' <= c && c <= 'f') || ('A' <= c && c <= 'F') }

/// no newline in s[a..b)
pub open spec fn no_nl(s: Seq<char>, a: int, b: int) -> bool { forall|i: int| a <= i < b ==> #[trigger] s[i] != '\n' }

/// Characters that are not newlines stay on the line and advance the column one by one.
pub proof fn lemma_same_line(s: Seq<char>, a: int, b: int)
    requires 0 <= a <= b, no_nl(s, a, b),
    ensures line_of(s, b) == line_of(s, a), col_of(s, b) == col_of(s, a) + (b - a), line_start(s, b) == line_start(s, a),
    decreases b - a,
{
    if a < b {
        lemma_same_line(s, a, b - 1);
        assert(s[b - 1] != '\n');
    }
}

spec fn blanks(s: Seq<char>, a: int, b: int) -> bool { forall|i: int| a <= i < b ==> spec_is_ws(#[trigger] s[i]) }

/// What the token's payload must be, given that it spans s[a..=b] (C09: the range delimits exactly the text)
spec fn payload_ok(s: Seq<char>, a: int, b: int, tt: TokenType) -> bool {
    match tt {
        TokenType::Newline => a == b && s[a] == '\n',
        TokenType::LParen => a == b && s[a] == '(',
        TokenType::RParen => a == b && s[a] == ')',
        TokenType::Symbol(x) => x@ =~= s.subrange(a, b + 1),
        TokenType::Label(x) => x@ =~= s.subrange(a, b) && s[b] == ':',
        TokenType::Directive(x) => x@ =~= s.subrange(a, b + 1) && s[a] == '.',
        TokenType::Comment(x) => x@ =~= s.subrange(a + 1, b + 1) && s[a] == '#',
        TokenType::String(_) => a < b && s[a] == '"' && s[b] == '"',
        TokenType::Char(_) => a < b && s[a] == '\'' && s[b] == '\'',
    }
}

/// Lexer::next returned Ok(t) having moved the cursor from o to f.
spec fn next_ok(s: Seq<char>, o: int, f: int, t: Token, id: Uuid) -> bool {
    let start = t.raw_token.pos.start;
    let end = t.raw_token.pos.end;
    let a = start.raw_index as int;
    let b = end.raw_index as int;
    &&& o <= a <= b < s.len() && f == b + 1            // coverage: consumed = blanks ++ exactly the token
    &&& blanks(s, o, a)
    &&& consistent(s, start) && consistent(s, end)     // C09: coordinates designate the text
    &&& (t.token_type is Newline || no_nl(s, a, b + 1)) // on one line
    &&& payload_ok(s, a, b, t.token_type)
    &&& t.raw_token.file == id
}

/// Lexer::next returned Err(e) having moved the cursor from o to f: the error is located on the
/// offending text, which lies on one line, and nothing but blanks precedes it.
spec fn next_err(s: Seq<char>, o: int, f: int, e: LexError, id: Uuid) -> bool {
    match e {
        LexError::UnexpectedToken(t) => {
            let a = t.raw_token.pos.start.raw_index as int;
            let b = t.raw_token.pos.end.raw_index as int;
            &&& o <= a <= b < s.len() && f == b + 1
            &&& blanks(s, o, a) && no_nl(s, a, b + 1)
            &&& consistent(s, t.raw_token.pos.start) && consistent(s, t.raw_token.pos.end)
            &&& t.raw_token.file == id
        },
        LexError::InvalidString(t, se) => {
            let a = t.raw_token.pos.start.raw_index as int;
            &&& o <= a < f <= s.len()
            &&& blanks(s, o, a) && no_nl(s, a, f)
            &&& consistent(s, t.raw_token.pos.start) && consistent(s, t.raw_token.pos.end)
            &&& a <= t.raw_token.pos.end.raw_index <= f && se.pos == t.raw_token.pos.end
            &&& t.raw_token.file == id
        },
        _ => false,
    }
}

spec fn next_post(s: Seq<char>, o: int, f: int, r: Option<Result<Token, LexError>>, id: Uuid) -> bool {
    match r {
        None => f == s.len() && blanks(s, o, f),                // C07: end of stream only at the end of the text
        Some(Ok(t)) => next_ok(s, o, f, t, id),
        Some(Err(e)) => next_err(s, o, f, e, id),
    }
}

spec fn is_invalid_string(r: Result<Token, LexError>, start: Position, end: Position, id: Uuid) -> bool {
    match r {
        Err(LexError::InvalidString(t, e)) => t.raw_token.pos.start == start && t.raw_token.pos.end == end && e.pos == end && t.raw_token.file == id,
        _ => false,
    }
}

/// derive(Clone) on Range (two Copy fields) is a field-wise copy; Verus gives derived Clone impls of
/// non-Copy types no postcondition, so the derive is modelled by this impl (listed as an assumption).
impl Clone for Range {
    fn clone(&self) -> (r: Self)
        ensures r == *self,
    {
        Range { start: self.start, end: self.end }
    }
}

/// `comment_str.split_at(1)` (rewrite R6): vstd states str::split_at over UTF-8 bytes, which cannot be
/// discharged for a `String` built by `push`; the wrapper states the char-level contract for the only
/// way it is used: the first character is the one-byte '#'. Body = the original call (trusted).
#[verifier::external_body]
pub fn verif_split_after_hash(s: &String) -> (r: (&str, &str))
    requires s@.len() >= 1, s@[0] == '#',
    ensures r.1@ == s@.subrange(1, s@.len() as int),
{
    s.split_at(1)
}

/// vstd has no model of `impl Add<&str> for String` (infix `+`): it never panics.
#[verifier::external_body]
pub proof fn axiom_string_add()
    ensures forall|x: String, y: &str| #[trigger] <String as AddSpec<&str>>::add_req(x, y),
{}

/// Hook standing for the panic of a failed debug assertion (rewrite R4): it has no
/// satisfiable precondition, so every call site must be proved unreachable.
pub fn verif_debug_assert_failed()
    requires false,
{}

// ---- std gaps (trusted, listed in TRUSTED.md) ----
pub assume_specification [char::is_ascii_lowercase] (c: &char) -> (r: bool)
    ensures r == ('a' <= *c && *c <= 'z');
pub assume_specification [char::is_ascii_uppercase] (c: &char) -> (r: bool)
    ensures r == ('A' <= *c && *c <= 'Z');
pub assume_specification [char::is_ascii_digit] (c: &char) -> (r: bool)
    ensures r == ('0' <= *c && *c <= '9');
pub assume_specification [char::to_digit] (c: char, radix: u32) -> (r: Option<u32>)
    requires 2 <= radix <= 36,
    ensures radix == 16 ==> (r is Some <==> spec_is_hex(c)), r is Some ==> r->0 < radix,
            radix == 16 && r is Some ==> r->0 as int == hex_val(c);
/// the value of one hexadecimal digit (either letter case)
pub open spec fn hex_val(c: char) -> int {
    if '0' <= c && c <= '9' { c as int - '0' as int } else if 'a' <= c && c <= 'f' { c as int - 'a' as int + 10 } else { c as int - 'A' as int + 10 }
}
/// the value of the first n of four hexadecimal digits
pub open spec fn hex_prefix(d: Seq<char>, n: int) -> int {
    if n <= 0 { 0 } else if n == 1 { hex_val(d[0]) } else if n == 2 { hex_val(d[0]) * 16 + hex_val(d[1]) }
    else if n == 3 { (hex_val(d[0]) * 16 + hex_val(d[1])) * 16 + hex_val(d[2]) }
    else { ((hex_val(d[0]) * 16 + hex_val(d[1])) * 16 + hex_val(d[2])) * 16 + hex_val(d[3]) }
}
pub assume_specification [char::from_u32] (v: u32) -> (r: Option<char>)
    ensures r is Some ==> (r->0) as u32 == v;

pub assume_specification<T: Copy>[Option::<&T>::copied](o: Option<&T>) -> (r: Option<T>)
    ensures r == (match o { Some(x) => Some(*x), None => None::<T> });

/// opaque stand-in for uuid::Uuid (copied and compared, never inspected)
#[derive(Clone, Copy)]
pub struct Uuid { pub v: u128 }

/// opaque stand-ins for payload types that Lexer::next never constructs or inspects
#[derive(Clone)]
pub struct ParserNode { pub v: u8 }
#[derive(Clone)]
pub struct ExpectedType { pub v: u8 }

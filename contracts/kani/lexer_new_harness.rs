// ---- woven by /verif (unit `lexer_k`): Lexer::new keeps the text it is given ----
#[cfg(kani)]
mod verif_kani_lexer_new {
    use super::Lexer;

    /// Lexer::new(text) scans exactly the characters of `text` (so raw offsets index the file as given)
    /// and starts at offset 0, line 0, column 0.  BOUNDED: three concrete texts that contain CR, LF, CR LF
    /// and a multi-byte character (a symbolic 3-byte text did not finish in 600 s: String/Vec growth and
    /// UTF-8 decoding under CBMC).
    fn check(text: &str, expect: &[char]) {
        let lx = Lexer::new(text, uuid::Uuid::nil());
        assert!(lx.source.len() == expect.len(), "Lexer::new changed the number of characters");
        let mut i = 0;
        while i < expect.len() {
            assert!(lx.source[i] == expect[i], "Lexer::new changed the text");
            i += 1;
        }
        assert!(lx.pos == 0 && lx.row == 0 && lx.col == 0, "Lexer::new does not start at the origin");
    }
    #[kani::proof]
    #[kani::unwind(12)]
    fn new_keeps_text() {
        check("a\r\nb", &['a', '\r', '\n', 'b']);
        check("\r\n\n\r", &['\r', '\n', '\n', '\r']);
        check("\u{3bb} \t,", &['\u{3bb}', ' ', '\t', ',']);
    }
}

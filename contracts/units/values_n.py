# unit `values_n` — bounded native stand-in for the value analysis as a whole (rule_* rewrites over HashMap with closures,
# AvailableValuePass::run over the Rc graph: out of reach of Verus and Kani). Straight-line programs only. Never counted as proved.
UNIT = {
    'unit': 'values_n', 'backend': 'native',
    'functions': [{'file': 'riscv_analysis/src/analysis/available.rs', 'item': 'fn rule_perform_math_ops'},
                  {'file': 'riscv_analysis/src/analysis/available.rs', 'item': 'fn rule_known_values_to_stack'},
                  {'file': 'riscv_analysis/src/analysis/available.rs', 'item': 'fn rule_value_from_stack'},
                  {'file': 'riscv_analysis/src/analysis/available.rs', 'item': 'fn rule_zero_to_const'},
                  {'file': 'riscv_analysis/src/analysis/available.rs', 'item': 'fn rule_expand_address_for_load'}],
    'obligations': [
        {'id': 'values_n.claims', 'recipe': ['values-search'], 'props': ['C01', 'C06'], 'kind': 'bounded',
         'bound': '4434 programs x 6 initial register files: every R-type operator on a 14x14 operand grid in five operand shapes incl. x0; every I-type '
                  'operator; 25 hand-written programs with sp arithmetic, save/restore, sub-word and overlapping stores, extreme offsets, forward branches '
                  'and joins, loops, and calls to convention-respecting functions (executed for real, one entry snapshot per activation)',
         'clause': 'every Constant / entry-value-plus-constant claim attached before or after an executed instruction, and every stack-slot claim of such a '
                   'value, equals what an RV32IM interpreter computes; the analysis never panics',
         'tier': 'quick'},
    ],
}

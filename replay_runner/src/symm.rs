//! Bounded native check of the whole-pipeline half of C14 (public API only): a program and its twin under a permutation of
//! the temporaries, a permutation of the saved registers, or an injective renaming of labels must get the same diagnostics:
//! same title, same line, same operand tokens, description equal up to the renaming.
use riscv_analysis::parser::{EmptyFileReader, RVParser};
use std::panic::{catch_unwind, AssertUnwindSafe};

const TEMPS: [&str; 7] = ["t0", "t1", "t2", "t3", "t4", "t5", "t6"];
const TEMPS_X: [&str; 7] = ["x5", "x6", "x7", "x28", "x29", "x30", "x31"];
const SAVED: [&str; 12] = ["s0", "s1", "s2", "s3", "s4", "s5", "s6", "s7", "s8", "s9", "s10", "s11"];
const SAVED_X: [&str; 12] = ["x8", "x9", "x18", "x19", "x20", "x21", "x22", "x23", "x24", "x25", "x26", "x27"];

/// identifier tokens of a line: (start column in chars, token)
fn tokens(line: &str) -> Vec<(usize, String)> {
    let mut out = Vec::new();
    let mut cur: Option<(usize, String)> = None;
    for (i, c) in line.chars().enumerate() {
        if c.is_ascii_alphanumeric() || c == '_' || c == '.' {
            match cur.as_mut() { Some((_, s)) => s.push(c), None => cur = Some((i, c.to_string())) }
        } else if let Some(t) = cur.take() { out.push(t); }
    }
    if let Some(t) = cur.take() { out.push(t); }
    out
}

/// simultaneous renaming of identifier tokens (comments are left alone: they start at '#')
fn rename(src: &str, map: &[(String, String)]) -> String {
    let mut out = String::new();
    for line in src.split('\n') {
        let code_len = line.find('#').unwrap_or(line.len());
        let (code, rest) = line.split_at(code_len);
        let chars: Vec<char> = code.chars().collect();
        let mut last = 0;
        for (start, tok) in tokens(code) {
            out.extend(&chars[last..start]);
            let new = map.iter().find(|(from, _)| *from == tok).map_or(tok.as_str(), |(_, to)| to.as_str());
            out.push_str(new);
            last = start + tok.chars().count();
        }
        out.extend(&chars[last..]);
        out.push_str(rest);
        out.push('\n');
    }
    out.pop();
    out
}

type Diag = (usize, usize, usize, usize, String, String);
/// diagnostics as (line, index of the first token covered, end line, index of the last token covered, title, description)
fn lint(src: &str) -> Result<Vec<Diag>, String> {
    let lines: Vec<&str> = src.split('\n').collect();
    let r = catch_unwind(AssertUnwindSafe(|| {
        let mut parser = RVParser::new(EmptyFileReader::new(src));
        parser.run(EmptyFileReader::get_file_path())
    })).map_err(|_| format!("the analyzer panicked on {src:?}"))?;
    let tok_index = |line: usize, col: usize| tokens(lines.get(line).copied().unwrap_or("")).iter().filter(|(s, _)| *s <= col).count();
    let mut v: Vec<Diag> = r.into_iter().map(|d| {
        let (sl, sc) = (d.range.start().zero_idx_line(), d.range.start().zero_idx_column());
        let (el, ec) = (d.range.end().zero_idx_line(), d.range.end().zero_idx_column());
        (sl, tok_index(sl, sc), el, tok_index(el, ec), d.title.clone(), d.description.clone())
    }).collect();
    v.sort();
    Ok(v)
}

fn check(src: &str, map: &[(String, String)], what: &str) -> Option<String> {
    let twin = rename(src, map);
    let (a, b) = match (lint(src), lint(&twin)) { (Ok(a), Ok(b)) => (a, b), (Err(e), _) | (_, Err(e)) => return Some(e) };
    // title and description of the original, renamed, are the ones expected for the twin (some titles name labels)
    let mut want: Vec<Diag> = a.iter().map(|(l, t, el, et, title, desc)| (*l, *t, *el, *et, rename(title, map), rename(desc, map))).collect();
    want.sort();
    if want != b {
        let only_a: Vec<&Diag> = want.iter().filter(|d| !b.contains(d)).collect();
        let only_b: Vec<&Diag> = b.iter().filter(|d| !want.contains(d)).collect();
        return Some(format!("diagnostics change under {what}: expected but missing {only_a:?}, unexpected {only_b:?}; program: {src:?}; twin: {twin:?}"));
    }
    None
}

fn class_map(names: &[&str], xnames: &[&str], perm: &[usize]) -> Vec<(String, String)> {
    let mut m = Vec::new();
    for (i, &j) in perm.iter().enumerate() {
        if i != j { m.push((names[i].to_string(), names[j].to_string())); m.push((xnames[i].to_string(), xnames[j].to_string())); }
    }
    // fp is another spelling of s0
    if names[0] == "s0" && perm[0] != 0 { m.push(("fp".to_string(), names[perm[0]].to_string())); }
    m
}

const PROGRAMS: [&str; 23] = [
    // a frame addressed through the frame pointer, at and above the entry sp
    "main:\n    jal ra, f\n    li a7, 10\n    ecall\nf:\n    addi sp, sp, -16\n    sw s0, 12(sp)\n    sw s1, 8(sp)\n    addi s0, sp, 16\n    sw s1, 0(s0)\n    lw a0, 4(s0)\n    lw s1, -8(s0)\n    lw s0, 12(sp)\n    addi sp, sp, 16\n    ret\n",
    // uninitialised low registers only, at program entry
    "main:\n    add a0, t1, t2\n    add a1, a0, s1\n    li a7, 10\n    ecall\n",
    "main:\nloop:\n    addi t0, t0, 1\n    blt t0, a0, loop\n    add a0, a0, s0\n    li a7, 10\n    ecall\n",
    // two different labels, each defined twice
    "main:\n    jal ra, first\n    li a7, 10\n    ecall\nfirst:\n    li a0, 1\n    ret\nfirst:\n    li a0, 2\nsecond:\n    ret\nsecond:\n    ret\n",
    // linking through a temporary
    "main:\n    li t1, 5\n    jal t0, double\n    add a0, a0, t1\n    li a7, 10\n    ecall\ndouble:\n    add a0, a0, a0\n    jr t0\n",
    // loads / stores by label (two-instruction expansions), writes to the zero register
    "main:\n    jal ra, f\n    li a7, 10\n    ecall\nf:\n    lw s0, v\n    sw a0, v, s1\n    add zero, t0, t0\nhere: addi x0, t0, 1\n    mv a0, s0\n    ret\n.data\nv:  .word 7\n",
    // two clobbered temporaries read by one instruction after a call, in both operand orders
    "main:\n    li t0, 1\n    li t1, 2\n    jal ra, foo\n    add a0, t0, t1\n    add a1, t1, t0\n    sub a2, t5, t6\n    li a7, 10\n    ecall\nfoo:\n    li a0, 0\n    ret\n",
    // a function with two labels, called through each of them
    "main:\n    li a0, 1\n    jal ra, beta\n    mv a1, a0\n    li a0, 2\n    jal ra, alpha\n    add a0, a0, a1\n    li a7, 1\n    ecall\n    li a7, 10\n    ecall\nalpha:\nbeta:\n    addi a0, a0, 1\n    ret\n",
    // every temporary read after a call
    "main:\n    jal ra, w\n    add a0, t0, t1\n    add a0, t2, t3\n    add a0, t4, t5\n    add a0, a0, t6\n    li a7, 10\n    ecall\nw:\n    ret\n",
    // clobbers s1 without saving it, reads s0 although nothing was put there
    "main:\n    li   a0, 1\n    jal  ra, foo\n    li   a7, 1\n    ecall\n    li   a7, 10\n    ecall\nfoo:\n    addi s1, a0, 1\n    addi a0, s1, 2\n    add  a0, a0, s0\n    ret\n",
    // correct save / restore of two saved registers
    "main:\n    li a0, 3\n    jal ra, f\n    li a7, 10\n    ecall\nf:\n    addi sp, sp, -8\n    sw s0, 0(sp)\n    sw s1, 4(sp)\n    mv s0, a0\n    addi s1, s0, 1\n    add a0, s0, s1\n    lw s0, 0(sp)\n    lw s1, 4(sp)\n    addi sp, sp, 8\n    ret\n",
    // restores into the wrong register
    "main:\n    jal ra, f\n    li a7, 10\n    ecall\nf:\n    addi sp, sp, -8\n    sw s2, 0(sp)\n    sw s3, 4(sp)\n    li s2, 1\n    li s3, 2\n    lw s3, 0(sp)\n    lw s2, 4(sp)\n    addi sp, sp, 8\n    ret\n",
    // temporaries: dead store, use before assignment, use after a call
    "main:\n    li t0, 5\n    li t1, 6\n    add a0, t1, t2\n    jal ra, g\n    add a0, a0, t1\n    li a7, 10\n    ecall\ng:\n    li t3, 1\n    add a0, a0, t3\n    ret\n",
    // temporaries in a loop, all used
    "main:\n    li t0, 0\n    li t1, 10\nloop:\n    addi t0, t0, 1\n    blt t0, t1, loop\n    mv a0, t0\n    li a7, 1\n    ecall\n    li a7, 10\n    ecall\n",
    // saved register used as a loop counter in main, callee uses temporaries
    "main:\n    li s4, 3\nagain:\n    mv a0, s4\n    jal ra, show\n    addi s4, s4, -1\n    bnez s4, again\n    li a7, 10\n    ecall\nshow:\n    mv t4, a0\n    li a7, 1\n    ecall\n    mv a0, t4\n    ret\n",
    // saved register overwritten on one path only
    "main:\n    jal ra, h\n    li a7, 10\n    ecall\nh:\n    beqz a0, skip\n    li s5, 1\nskip:\n    add a0, a0, s6\n    ret\n",
    // the frame pointer spelling
    "main:\n    jal ra, k\n    li a7, 10\n    ecall\nk:\n    addi sp, sp, -4\n    sw fp, 0(sp)\n    mv fp, sp\n    li s7, 9\n    lw fp, 0(sp)\n    addi sp, sp, 4\n    ret\n",
    // numeric spellings
    "main:\n    jal x1, m\n    li a7, 10\n    ecall\nm:\n    addi x9, x10, 1\n    add x10, x9, x18\n    li x28, 4\n    add x10, x10, x29\n    ret\n",
    // saved and temporary registers as store / load operands
    "main:\n    jal ra, n\n    li a7, 10\n    ecall\nn:\n    addi sp, sp, -16\n    sw s8, 0(sp)\n    sw t5, 4(sp)\n    lw t6, 4(sp)\n    li s8, 2\n    sw s9, 8(sp)\n    lw s8, 0(sp)\n    addi sp, sp, 16\n    ret\n",
    // nested calls without saving ra; temporaries live across the inner call
    "main:\n    jal ra, outer\n    li a7, 10\n    ecall\nouter:\n    li t2, 7\n    jal ra, inner\n    add a0, a0, t2\n    ret\ninner:\n    li a0, 1\n    ret\n",
    // a clean leaf function
    "main:\n    li a0, 1\n    li a1, 2\n    jal ra, add2\n    li a7, 1\n    ecall\n    li a7, 10\n    ecall\nadd2:\n    add a0, a0, a1\n    ret\n",
    // saved registers s10 / s11 and every temporary written once, never read
    "main:\n    jal ra, w\n    li a7, 10\n    ecall\nw:\n    li s10, 1\n    li s11, 2\n    li t0, 1\n    li t1, 1\n    li t2, 1\n    li t3, 1\n    li t4, 1\n    li t5, 1\n    li t6, 1\n    ret\n",
    // reads of every saved register in one function
    "main:\n    jal ra, r\n    li a7, 10\n    ecall\nr:\n    add a0, s0, s1\n    add a0, a0, s2\n    add a0, a0, s3\n    add a0, a0, s4\n    add a0, a0, s5\n    add a0, a0, s6\n    add a0, a0, s7\n    add a0, a0, s8\n    add a0, a0, s9\n    add a0, a0, s10\n    add a0, a0, s11\n    ret\n",
];

pub fn programs() -> Vec<&'static str> { PROGRAMS.to_vec() }

pub fn search(v: &serde_json::Value) -> i32 {
    let mut n = 0u64;
    let only: Option<&str> = v.get("inputs").and_then(|i| i.get("program")).and_then(|s| s.as_str());
    let progs: Vec<&str> = match only { Some(p) => vec![p], None => PROGRAMS.to_vec() };
    for src in &progs {
        // every transposition and one rotation of each class
        for (names, xnames) in [(&TEMPS[..], &TEMPS_X[..]), (&SAVED[..], &SAVED_X[..])] {
            let k = names.len();
            let mut perms: Vec<Vec<usize>> = Vec::new();
            for i in 0..k { for j in i + 1..k { let mut p: Vec<usize> = (0..k).collect(); p.swap(i, j); perms.push(p); } }
            perms.push((0..k).map(|i| (i + 1) % k).collect());
            perms.push((0..k).map(|i| (i * 5 + 3) % k).collect());
            for p in perms {
                n += 1;
                let map = class_map(names, xnames, &p);
                let what = format!("the register permutation {:?}", map.iter().filter(|(a, _)| !a.starts_with('x')).collect::<Vec<_>>());
                if let Some(w) = check(src, &map, &what) { println!("witness: {w}"); return 1; }
            }
        }
        // label renamings: every label of the program gets a new valid name (injective)
        let mut labels: Vec<String> = Vec::new();
        for l in src.split('\n').filter_map(|l| l.trim().split(':').next().filter(|_| l.contains(':') && !l.trim_start().starts_with('#') && !l.contains('"')).map(|x| x.trim().to_string())) {
            if !l.is_empty() && !l.contains(' ') && !labels.contains(&l) { labels.push(l); }   // every label once: the renaming is a function of the name
        }
        for style in 0..5 {
            let map: Vec<(String, String)> = labels.iter().enumerate().map(|(i, l)| (l.clone(), match style {
                0 => format!("{l}_renamed"), 1 => format!("L{i}"), 2 => format!("_{}", labels[(i + 1) % labels.len()].to_uppercase()),
                // names that look like registers or mnemonics in another letter case are ordinary labels
                3 => ["T1", "FP", "Zero", "S11", "X5", "A0", "Ra", "ADD", "Ret", "Sp"][i % 10].to_string(),
                // the alphabetical order of the labels is reversed
                _ => format!("{}{}", ["z", "y", "x", "w", "v", "u", "q", "p", "o", "n"][i % 10], l) })).collect();
            n += 1;
            if let Some(w) = check(src, &map, &format!("the label renaming {map:?}")) { println!("witness: {w}"); return 1; }
        }
    }
    // vacuity guard: the pool must actually produce the register-related diagnostics
    let mut titles: Vec<String> = progs.iter().flat_map(|p| lint(p).unwrap_or_default()).map(|d| d.4).collect();
    titles.sort(); titles.dedup();
    if only.is_none() && titles.len() < 5 { println!("error: the program pool produces only {titles:?}"); return 2; }
    println!("diagnostic kinds exercised: {titles:?}");
    println!("no diagnostic changes among {n} program/renaming pairs ({} programs; every transposition and two longer permutations of t0-t6 and of s0-s11, in ABI and x-number spelling; five renamings of all labels (suffix, numbered, upper case, register-like names in another case, reversed alphabetical order))", progs.len());
    0
}

# unit `term_n` — bounded native stand-in for the whole-pipeline half of C06 (the fixed-point passes over the Rc graph: liveness,
# available values, function markup, dead-code pruning — out of reach of Verus and Kani). Public API only. Never counted as proved.
UNIT = {
    'unit': 'term_n', 'backend': 'native',
    'functions': [{'file': 'riscv_analysis/src/analysis/liveness.rs', 'item': 'impl GenerationPass for LivenessPass :: fn run'},
                  {'file': 'riscv_analysis/src/gen/function_annotations.rs', 'item': 'impl FunctionMarkupPass :: fn mark_reachable'}],
    'obligations': [
        {'id': 'term_n.finishes', 'recipe': ['term-search'], 'props': ['C06'], 'kind': 'bounded', 'timeout': 1500,
         'bound': '809 programs x 4 runs (the passes iterate hash sets): 9 hand-written programs (a `.macro` that is never closed, recursion, mutual recursion, a loop around a call, '
                  'two labels on one function, a one-instruction loop, an interrupt handler) and every program of 2 or 3 functions with bodies from a pool '
                  'of 5 (return; jump into a shared tail; branch into it with an own return; branch and jump into it; fall through into the next '
                  'function) called from main in every order; 10 s per run',
         'clause': 'RVParser::run returns (no endless fixed-point iteration) and does not panic',
         'tier': 'quick'},
    ],
}

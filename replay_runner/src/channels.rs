//! Bounded native check of the main clause of C18 (the CLI binary `rva` and the library entry point): for the same files,
//! `--json`, `--compact`, the pretty printer (each with and without `--all-files`) and `RVParser::run` report the same
//! diagnostics — severity, title, file, line, columns — sorted by position within each file; the JSON is valid and of the
//! documented shape; titles are non-empty and a title's severity is fixed; the excerpt of a pretty block shows the referred
//! line with the marker under the reported columns.
use riscv_analysis::parser::RVParser;
use riscv_analysis::passes::SeverityLevel;
use riscv_analysis::reader::{FileReader, FileReaderError};
use std::collections::HashMap;
use std::path::{Path, PathBuf};
use std::process::Command;
use uuid::Uuid;

#[derive(Debug, Clone, PartialEq, Eq, PartialOrd, Ord)]
struct Diag { file: String, line: usize, c0: usize, c1: usize, level: String, title: String }

/// reader over the files on disk (what the CLI's own reader does: paths relative to the including file's directory)
#[derive(Clone)]
struct DiskReader { dir: PathBuf, read: HashMap<Uuid, String>, base: Option<Uuid> }
impl FileReader for DiskReader {
    fn import_file(&mut self, path: &str, _parent: Option<Uuid>) -> Result<(Uuid, String), FileReaderError> {
        let name = Path::new(path).file_name().and_then(|s| s.to_str()).unwrap_or(path).to_string();
        if self.read.values().any(|p| *p == name) { return Err(FileReaderError::FileAlreadyRead(path.to_string())); }
        let text = std::fs::read_to_string(self.dir.join(&name)).map_err(|e| FileReaderError::IOErr(e.to_string()))?;   // as the CLI's reader does
        let id = Uuid::new_v4();
        self.read.insert(id, name);
        self.base.get_or_insert(id);
        Ok((id, text))
    }
    fn get_text(&self, uuid: Uuid) -> Option<String> { std::fs::read_to_string(self.dir.join(self.read.get(&uuid)?)).ok() }
    fn get_filename(&self, uuid: Uuid) -> Option<String> { self.read.get(&uuid).cloned() }
    fn get_base_file(&self) -> Option<Uuid> { self.base }
}

fn base_name(p: &str) -> String { Path::new(p.trim()).file_name().and_then(|s| s.to_str()).unwrap_or(p).to_string() }

fn library(dir: &Path) -> Vec<Diag> {
    let mut parser = RVParser::new(DiskReader { dir: dir.to_path_buf(), read: HashMap::new(), base: None });
    let items = parser.run("main.s");
    items.iter().map(|d| Diag {
        file: parser.reader.get_filename(d.file).unwrap_or_default(),
        line: d.range.start().zero_idx_line(), c0: d.range.start().zero_idx_column(), c1: d.range.end().zero_idx_column(),
        level: match d.level { SeverityLevel::Error => "Error", SeverityLevel::Warning => "Warning", SeverityLevel::Information => "Info", SeverityLevel::Hint => "Hint" }.to_string(), title: d.title.clone() }).collect()
}

fn rva(exe: &Path, dir: &Path, flags: &[&str]) -> Result<String, String> {
    use std::io::Read;
    let mut child = Command::new(exe).current_dir(dir).arg("lint").args(flags).arg("main.s").stdout(std::process::Stdio::piped()).stderr(std::process::Stdio::piped())
        .spawn().map_err(|e| format!("cannot run rva: {e}"))?;
    // the output of these small inputs fits the pipe buffer: wait first (20 s), read afterwards
    let t0 = std::time::Instant::now();
    let status = loop {
        match child.try_wait() { Ok(Some(st)) => break st, Ok(None) => {}, Err(e) => return Err(format!("cannot wait for rva: {e}")) }
        if t0.elapsed().as_secs() >= 20 { let _ = child.kill(); let _ = child.wait(); return Err(format!("rva lint {flags:?} did not finish within 20 s")); }
        std::thread::sleep(std::time::Duration::from_millis(5));
    };
    let (mut out, mut err) = (String::new(), String::new());
    if let Some(mut o) = child.stdout.take() { let _ = o.read_to_string(&mut out); }
    if let Some(mut e) = child.stderr.take() { let _ = e.read_to_string(&mut err); }
    if !status.success() { return Err(format!("rva lint {flags:?} exited with {:?}: {}", status.code(), err.chars().take(300).collect::<String>())); }
    Ok(out)
}

fn parse_json(text: &str) -> Result<Vec<Diag>, String> {
    let v: serde_json::Value = serde_json::from_str(text).map_err(|e| format!("--json output is not valid JSON: {e}"))?;
    let arr = v.get("diagnostics").and_then(|d| d.as_array()).ok_or("--json output has no `diagnostics` array")?;
    let mut out = Vec::new();
    for d in arr {
        let s = |k: &str| d.get(k).and_then(|x| x.as_str()).map(str::to_string).ok_or(format!("JSON diagnostic without string field `{k}`: {d}"));
        let n = |a: &str, b: &str| d.get("range").and_then(|r| r.get(a)).and_then(|p| p.get(b)).and_then(|x| x.as_u64()).map(|x| x as usize).ok_or(format!("JSON diagnostic without range.{a}.{b}: {d}"));
        d.get("description").and_then(|x| x.as_str()).ok_or(format!("JSON diagnostic without `description`: {d}"))?;
        n("start", "raw")?; n("end", "raw")?; n("end", "line")?;
        out.push(Diag { file: base_name(&s("file")?), line: n("start", "line")?, c0: n("start", "column")?, c1: n("end", "column")?, level: s("level")?, title: s("title")? });
    }
    Ok(out)
}

/// "{level}: {title} in {path} at {line} {c0}:{c1}" (one-based)
fn parse_compact(text: &str) -> Result<Vec<Diag>, String> {
    let mut out = Vec::new();
    for l in text.lines() {
        if l.contains("found in other files") || l.trim().is_empty() { continue; }
        let (level, rest) = l.split_once(": ").ok_or(format!("compact line without severity: {l:?}"))?;
        let (head, pos) = rest.rsplit_once(" at ").ok_or(format!("compact line without position: {l:?}"))?;
        let (title, path) = head.rsplit_once(" in ").ok_or(format!("compact line without file: {l:?}"))?;
        let (line, cols) = pos.split_once(' ').ok_or(format!("compact position malformed: {l:?}"))?;
        let (c0, c1) = cols.split_once(':').ok_or(format!("compact columns malformed: {l:?}"))?;
        let num = |s: &str| s.trim().parse::<usize>().map_err(|_| format!("compact number malformed in {l:?}"));
        out.push(Diag { file: base_name(path), line: num(line)?.wrapping_sub(1), c0: num(c0)?.wrapping_sub(1), c1: num(c1)?.wrapping_sub(1), level: level.to_string(), title: title.to_string() });
    }
    Ok(out)
}

/// blocks "{level}: {title}\n in file: {path}\n{spc} |\n {n} | {text}\n{spc} | {blanks}{carets}\n\n"
fn parse_pretty(text: &str, dir: &Path) -> Result<Vec<Diag>, String> {
    let lines: Vec<&str> = text.split('\n').collect();
    let mut out = Vec::new();
    let mut i = 0;
    while i < lines.len() {
        let l = lines[i];
        if l.trim().is_empty() || l.contains("found in other files") { i += 1; continue; }
        let (level, title) = l.split_once(": ").ok_or(format!("pretty block does not start with `severity: title`: {l:?}"))?;
        let path = lines.get(i + 1).and_then(|x| x.strip_prefix(" in file: ")).ok_or(format!("pretty block without ` in file:` line after {l:?}"))?;
        let file = base_name(path);
        // excerpt
        let gutter = lines.get(i + 2).ok_or("pretty block cut short")?;
        let src = lines.get(i + 3).ok_or("pretty block cut short")?;
        let mark = lines.get(i + 4).ok_or("pretty block cut short")?;
        let bar = gutter.find('|').ok_or(format!("no gutter row in the excerpt of {l:?}: {gutter:?}"))?;
        if mark.find('|') != Some(bar) || src.find('|') != Some(bar) { return Err(format!("gutters of the excerpt rows are not aligned: {gutter:?} / {src:?} / {mark:?}")); }
        let n: usize = src[..bar].trim().parse().map_err(|_| format!("no line number in excerpt row {src:?}"))?;
        let shown = src.get(bar + 2..).unwrap_or("");
        let marks: Vec<char> = mark.get(bar + 2..).unwrap_or("").chars().collect();
        let lead = marks.iter().take_while(|c| **c != '^').count();
        let carets = marks.iter().skip(lead).take_while(|c| **c == '^').count();
        if carets == 0 || lead + carets != marks.len() { return Err(format!("marker row is not blanks followed by carets: {mark:?}")); }
        // the shown text must be the referred line of the file, trimmed
        let ftext = std::fs::read_to_string(dir.join(&file)).unwrap_or_default();
        let real = ftext.split('\n').nth(n - 1).unwrap_or("");
        if real.trim() != shown { return Err(format!("the excerpt shows {shown:?}, line {n} of {file} is {real:?}")); }
        let first_non_ws = real.chars().take_while(|c| c.is_whitespace()).count();
        out.push(Diag { file, line: n - 1, c0: first_non_ws + lead, c1: first_non_ws + lead + carets - 1, level: level.to_string(), title: title.to_string() });
        i += 5;
    }
    Ok(out)
}

fn check_case(exe: &Path, root: &Path, k: usize, files: &[(&str, &str)], severities: &mut HashMap<String, String>) -> Option<String> {
    let dir = root.join(format!("case{k}"));
    let _ = std::fs::remove_dir_all(&dir);
    std::fs::create_dir_all(&dir).ok()?;
    for (name, text) in files { std::fs::write(dir.join(name), text).ok()?; }
    let what = format!("files {files:?}");
    let lib = library(&dir);
    // well-formed: titles, severities, order
    for d in &lib {
        if d.title.trim().is_empty() { return Some(format!("a diagnostic has an empty title ({what})")); }
        if !["Error", "Warning", "Info", "Hint"].contains(&d.level.as_str()) { return Some(format!("unknown severity {:?} ({what})", d.level)); }
        let kind = d.title.split(|c: char| c == ',' || c == '(').next().unwrap_or("").trim().to_string();
        if let Some(prev) = severities.insert(kind.clone(), d.level.clone()) { if prev != d.level { return Some(format!("the severity of {kind:?} is {prev} in one place and {} in another ({what})", d.level)); } }
    }
    let mut by_file: HashMap<&str, Vec<(usize, usize)>> = HashMap::new();
    for d in &lib { by_file.entry(d.file.as_str()).or_default().push((d.line, d.c0)); }
    for (f, v) in &by_file { if v.windows(2).any(|w| w[0] > w[1]) { return Some(format!("RVParser::run does not sort the diagnostics of {f} by position: {v:?} ({what})")); } }
    let base_only: Vec<Diag> = lib.iter().filter(|d| d.file == "main.s").cloned().collect();
    let channels: [(&[&str], bool, u8); 6] = [(&["--json"], true, 0), (&["--compact", "--no-color"], false, 1), (&["--compact", "--no-color", "--all-files"], true, 1),
        (&["--no-color"], false, 2), (&["--no-color", "--all-files"], true, 2), (&["--json", "--all-files"], true, 0)];
    for (flags, all, fmt) in channels {
        let out = match rva(exe, &dir, flags) { Ok(o) => o, Err(e) => return Some(format!("{e} ({what})")) };
        let got = match fmt { 0 => parse_json(&out), 1 => parse_compact(&out), _ => parse_pretty(&out, &dir) };
        let got = match got { Ok(g) => g, Err(e) => return Some(format!("rva lint {flags:?}: {e} ({what})")) };
        let want = if all { &lib } else { &base_only };
        // the text printers say how many diagnostics they leave out
        if fmt != 0 {
            let hidden = if all { 0 } else { lib.len() - base_only.len() };
            let notice = out.lines().find(|l| l.contains("found in other files"));
            let said = notice.and_then(|l| l.split_whitespace().next()).and_then(|x| x.parse::<usize>().ok());
            if (hidden == 0 && notice.is_some()) || (hidden > 0 && said != Some(hidden)) {
                return Some(format!("rva lint {flags:?}: {hidden} diagnostic(s) are in other files, the output says {said:?} ({what})"));
            }
        }
        // the order between files is not fixed (files are identified by random ids); within a file it is
        let per_file = |v: &[Diag]| -> Vec<(String, Vec<Diag>)> { let mut names: Vec<String> = v.iter().map(|d| d.file.clone()).collect(); names.sort(); names.dedup();
            names.into_iter().map(|f| { let ds = v.iter().filter(|d| d.file == f).cloned().collect(); (f, ds) }).collect() };
        if per_file(&got) != per_file(want) {
            let missing: Vec<&Diag> = want.iter().filter(|d| !got.contains(d)).collect();
            let extra: Vec<&Diag> = got.iter().filter(|d| !want.contains(d)).collect();
            return Some(format!("rva lint {flags:?} and RVParser::run do not report the same diagnostics in the same order: only in the library {missing:?}, only in this channel {extra:?} (library order {:?}, channel order {:?}); {what}",
                want.iter().map(|d| (d.line, d.c0)).collect::<Vec<_>>(), got.iter().map(|d| (d.line, d.c0)).collect::<Vec<_>>()));
        }
    }
    None
}

fn cases() -> Vec<Vec<(&'static str, &'static str)>> {
    let filler = "    addi t0, t0, 1\n    addi t0, t0, 1\n    addi t0, t0, 1\n    addi t0, t0, 1\n    addi t0, t0, 1\n    addi t0, t0, 1\n    addi t0, t0, 1\n";
    let long: &'static str = Box::leak(format!("main:\n    li t0, 0\n{filler}    foo a0\n    mv a0, t0\n{filler}{filler}{filler}{filler}{filler}{filler}{filler}{filler}{filler}{filler}{filler}{filler}{filler}    bar a1\n    li a7, 10\n    ecall\n").into_boxed_str());
    let bad = "    foo a0\n    bar a1\n    addi t0, t0\n    baz\n    li t5, 1\n    qux a2\n    li t6, 2\n    add a0, a0\n";
    let many_main: &'static str = Box::leak(format!("main:\n{bad}{bad}    jal ra, helper\n    jal ra, helper2\n{bad}    li a7, 10\n    ecall\n.include \"lib.s\"\n.include \"lib2.s\"\n").into_boxed_str());
    let many_lib: &'static str = Box::leak(format!("helper:\n{bad}{bad}{bad}    ret\n").into_boxed_str());
    let many_lib2: &'static str = Box::leak(format!("helper2:\n{bad}{bad}    ret\n").into_boxed_str());
    vec![
        vec![("main.s", "main:\n    li a0, 1\n    li a7, 10\n    ecall\n")],
        vec![("main.s", "main:\n    li t0, 5\n    add a0, t1, t2\n    jal ra, g\n    add a0, a0, t1\n    li a7, 10\n    ecall\ng:\n    li s1, 3\n    add a0, a0, s0\n    ret\n")],
        vec![("main.s", "main:\n    foo a0\n    addi a0, a0\n    li a7, 10\n    ecall\n")],
        vec![("main.s", "main:\n    j nowhere\n    li a7, 10\n    ecall\n    foo a0\n    addi a0, a0\n")],
        vec![("main.s", "main:\n    li a7, 10\n    ecall\n    sw t1, 0(t2)\n")],
        vec![("main.s", "main:\n    addi a0, a0, \"x\\\\y\"\n    li a7, 10\n    ecall\n")],
        vec![("main.s", "main:\n    la t0, \"a\\\"b\" x\n    li a7, 10\n    ecall\n")],
        vec![("main.s", "main:\n\tli\tt0, 5\n\tadd\ta0, t1, t2\t# tabs\n    li a7, 10\n    ecall\n")],
        vec![("main.s", "main:\r\n    addi a0, a0\r\n    li t3, 1\r\n    li a7, 10\r\n    ecall\r\n")],
        vec![("main.s", "main:\n    li t0, 1 # ünïcödé → comment\n    add a0, t5, t6 # é\n    li a7, 10\n    ecall\n")],
        vec![("main.s", long)],
        vec![("main.s", ".include \"lib.s\"\nmain:\n    jal ra, helper\n    bar a0\n    li a7, 10\n    ecall\n"), ("lib.s", "helper:\n    li t0, 1\n    foo t1\n    add a0, a0, s1\n    ret\n")],
        vec![("main.s", "main:\n    jal ra, helper\n    li t4, 9\n    li a7, 10\n    ecall\n.include \"lib.s\"\n"), ("lib.s", "helper:\n    li t0, 1\n    li s2, 2\n    ret\n")],
        vec![("main.s", "main:\n    .include \"missing.s\"\n    li t0, 1\n    li a7, 10\n    ecall\n")],
        vec![("main.s", "    li t0, 1\nmain:\n    addi x0, t0, 1\n    li a7, 10\n    ecall\n    li t1, 2\n")],
        vec![("main.s", "main:\n    j nowhere\n    j elsewhere\n    j third\n    li a7, 10\n    ecall\n")],
        vec![("main.s", "main:\n    addi a0, a0, foo:\n    li a7, 10\n    ecall\n")],
        // a name beyond the basic multilingual plane inside a title
        vec![("main.s", "main:\n    .include \"missing \u{1d11e} \u{1f3b5}.s\"\n    li a7, 10\n    ecall\n")],
        // more than twenty diagnostics spread over three files
        vec![("main.s", many_main), ("lib.s", many_lib), ("lib2.s", many_lib2)],
        // include graphs: a file that includes itself, a cycle of two files, undefined labels in two files
        vec![("main.s", ".include \"main.s\"\nmain:\n    li a7, 10\n    ecall\n")],
        vec![("main.s", ".include \"lib.s\"\nmain:\n    li a7, 10\n    ecall\n"), ("lib.s", ".include \"main.s\"\nhelper:\n    ret\n")],
        vec![("main.s", "main:\n    jal foo\n    li a7, 10\n    ecall\n.include \"lib.s\"\n"), ("lib.s", "helper:\n    jal bar\n    ret\n")],
        vec![("main.s", "main:\n    li a7, 77\n    ecall\n    addi sp, sp, 4\n    sw a0, 0(sp)\n    li a7, 10\n    ecall\n")],
    ]
}

pub fn search(_v: &serde_json::Value) -> i32 {
    let repo = std::env::var("VERIF_REPO").unwrap_or_else(|_| "/repo".to_string());
    let target = std::env::var("VERIF_RVA_TARGET").unwrap_or_else(|_| "/verif/.cache/rva-target".to_string());
    let b = Command::new("cargo").args(["build", "--offline", "-q", "-p", "riscv_analysis_cli", "--manifest-path"]).arg(format!("{repo}/Cargo.toml")).arg("--target-dir").arg(&target)
        .env("CARGO_NET_OFFLINE", "true").output();
    match b { Ok(o) if o.status.success() => {} Ok(o) => { println!("error: the CLI does not build: {}", String::from_utf8_lossy(&o.stderr).chars().take(400).collect::<String>()); return 2; } Err(e) => { println!("error: cannot run cargo: {e}"); return 2; } }
    let exe = Path::new(&target).join("debug/rva");
    let root = PathBuf::from(format!("/var/tmp/rva-verif/channels-{}", std::process::id()));
    let mut severities = HashMap::new();
    let all = cases();
    let mut res = 0;
    for (k, files) in all.iter().enumerate() {
        if let Some(w) = check_case(&exe, &root, k, files, &mut severities) { println!("witness: {w}"); res = 1; break; }
    }
    let _ = std::fs::remove_dir_all(&root);
    if res == 0 {
        println!("no disagreement among {} programs x 6 channel settings (--json, --compact, pretty; with and without --all-files) and RVParser::run; {} diagnostic kinds seen, each with one severity", all.len(), severities.len());
    }
    res
}

"""Replay a recorded counterexample against the real code (native build of /repo's
working tree, overflow checks on) through /verif/replay_runner."""
import json
import os
import subprocess

from .common import VERIF, offline_env, log

RUNNER_DIR = os.environ.get('VERIF_RUNNER_DIR') or os.path.join(VERIF, 'replay_runner')


def build_runner():
    r = subprocess.run(['cargo', 'build', '--offline', '-q'], cwd=RUNNER_DIR, env=offline_env(),
                       capture_output=True, text=True)
    if r.returncode != 0:
        return None, r.stderr[-2000:]
    return os.path.join(RUNNER_DIR, 'target', 'debug', 'replay_runner'), ''


def run_replay(doc):
    """-> (confirmed: True if the real code violates the obligation on the recorded input,
    False if it does not, None if it could not be replayed), text"""
    exe, err = build_runner()
    if exe is None:
        return None, 'replay runner did not build against the current tree:\n' + err
    args = list(doc.get('replay') or [])
    if not args:
        return None, 'no replay recipe for this obligation'
    payload = json.dumps({'inputs': doc.get('inputs'), 'witness': doc.get('witness')})
    try:
        tmo = int(doc.get('timeout') or 120)
        r = subprocess.run([exe] + args, input=payload, capture_output=True, text=True, timeout=tmo)
    except subprocess.TimeoutExpired:
        return (None if doc.get('timeout') else True), 'replay timed out after %d s%s' % (tmo, '' if doc.get('timeout') else ' (treated as a confirmed non-termination / blow-up)')
    text = (r.stdout + r.stderr).strip()
    if r.returncode == 1:
        return True, text
    if r.returncode == 0:
        return False, text
    return None, text

#!/bin/sh
# Build the framework from files on disk only (offline).
set -e
cd "$(dirname "$0")"
export CARGO_NET_OFFLINE=true
mkdir -p .cache evidence replay
cp /repo/Cargo.lock replay_runner/Cargo.lock 2>/dev/null || true
(cd replay_runner && cargo build --offline -q)
# warm Verus (first run loads vstd) and check the tools are present
verus --version >/dev/null
cargo kani --version >/dev/null
echo setup ok

//! Native counterexample finders at parser-node level (public API only):
//!  getany-search: the range of every instruction node designates exactly `mnemonic .. last operand`
//!  nodes-search : def/use and control predicates of a table of one-line programs
use riscv_analysis::parser::{InstructionProperties, ParserNode, RVStringParser, Register};
use riscv_analysis::passes::DiagnosticLocation;
use std::panic::{catch_unwind, AssertUnwindSafe};

const STATEMENTS: [&str; 37] = [
    // forms whose decoding looks at the token after the statement, and data directives with value lists
    "jalr t0", "jalr t0, t1, 4", "jalr t0, 4(t1)", "jalr t0, 8", "lw a0, 12", "sw a1, 12", "sw a1, 12, t0",
    ".word 1, 2", ".byte 7", ".half 1, 2, 3", ".asciz \"ab\"", ".space 4", ".align 2",
    "j main", "b main", "add t0, t1, t2", "addi sp, sp, -16", "lw a0, 4(sp)", "sw ra, 0(sp)", "lw a0, (sp)", "li a7, 10",
    "ecall", "ret", "jal main", "jal ra, main", "beq t0, t1, main", "bnez a0, main", "la a0, main", "mv a0, a1", "jr ra",
    "csrrw t0, 64, t1", "csrrwi t0, 64, 3", "lui t0, 5", "not t0, t1", "bgtz t0, main", "snez t0, t1", "neg a0, a0",
];

fn designated(text: &str, n: &ParserNode) -> Option<String> {
    let r = n.range();
    let chars: Vec<char> = text.chars().collect();
    let (a, b) = (r.start().raw_index(), r.end().raw_index());
    if a > b || b >= chars.len() { return None; }
    Some(chars[a..=b].iter().collect())
}

fn norm(s: &str) -> String { s.split(|c: char| c == ' ' || c == ',' || c == '\t').filter(|x| !x.is_empty()).collect::<Vec<_>>().join(" ") }

pub fn getany_search(_v: &serde_json::Value) -> i32 {
    let layouts: [(&str, &str); 6] = [("", "\nmain:\n"), (" ", "\nmain:\n"), ("\n", "\nmain:\n"), ("# c\n\t", " # tail\nmain:\n"),
                                      ("main: ", "\n"), ("x:\n\n  ", "\nmain:")];
    let mut n = 0;
    for st in STATEMENTS {
        for (pre, post) in layouts {
            let text = format!("{pre}{st}{post}");
            n += 1;
            let res = catch_unwind(AssertUnwindSafe(|| RVStringParser::parse_from_text(&text)));
            let (nodes, errors) = match res { Ok(x) => x, Err(_) => { println!("witness: parser panicked on {text:?}"); return 1; } };
            if !errors.is_empty() { println!("witness: {text:?} does not parse: {} error(s)", errors.len()); return 1; }
            let inst = nodes.iter().find(|x| x.is_instruction() || matches!(x, ParserNode::Directive(_)));
            let Some(node) = inst else { println!("witness: {text:?} produced no instruction node"); return 1; };
            match designated(&text, node) {
                Some(d) if norm(&d) == norm(st) && d.starts_with(st.split(' ').next().unwrap()) && d.ends_with(st.chars().last().unwrap()) => {}
                other => { println!("witness: in {text:?} the node range designates {other:?}, expected exactly {st:?}"); return 1; }
            }
            let r = node.range();
            if r.start().zero_idx_line() != r.end().zero_idx_line() { println!("witness: in {text:?} the node spans lines"); return 1; }
        }
    }
    println!("no failing input among {n} statement/layout combinations");
    0
}

fn regs(v: &[Register]) -> Vec<u8> { let mut x: Vec<u8> = v.iter().map(|r| r.to_num()).collect(); x.sort(); x.dedup(); x }

pub fn nodes_search(_v: &serde_json::Value) -> i32 {
    use Register::*;
    // statement, architectural destination, architectural sources
    let table: [(&str, Option<Register>, &[Register]); 16] = [
        ("add t0, t1, t2", Some(X5), &[X6, X7]), ("addi sp, sp, -16", Some(X2), &[X2]), ("lw a0, 4(sp)", Some(X10), &[X2]),
        ("sw ra, 0(sp)", None, &[X1, X2]), ("beq t0, t1, main", None, &[X5, X6]), ("jal ra, main", Some(X1), &[]),
        ("j main", Some(X0), &[]), ("jalr t0, t1, 0", Some(X5), &[X6]), ("csrrw t0, 64, t1", Some(X5), &[X6]),
        ("csrrs t0, 64, t2", Some(X5), &[X7]), ("csrrwi t0, 64, 3", Some(X5), &[]), ("la a0, main", Some(X10), &[]),
        ("li a7, 10", Some(X17), &[X0]), ("ecall", None, &[]), ("sb t3, 1(t4)", None, &[X28, X29]), ("lbu t5, 0(t6)", Some(X30), &[X31]),
    ];
    for (st, wd, rs) in table {
        let text = format!("{st}\nmain:\n");
        let (nodes, errors) = RVStringParser::parse_from_text(&text);
        if !errors.is_empty() { println!("witness: {st:?} does not parse"); return 1; }
        let Some(node) = nodes.iter().find(|x| x.is_instruction()) else { println!("witness: {st:?}: no instruction node"); return 1; };
        let w = node.writes_to().map(|x| *x.get());
        if w != wd { println!("witness: {st:?}: writes_to() = {w:?}, architectural destination is {wd:?}"); return 1; }
        let r: Vec<Register> = node.reads_from().into_iter().map(|x| *x.get()).collect();
        if regs(&r) != regs(rs) { println!("witness: {st:?}: reads_from() = {:?}, architectural sources are {:?}", regs(&r), regs(rs)); return 1; }
    }
    println!("no failing input among {} statements", table.len());
    0
}

pub fn genkill_search(_v: &serde_json::Value) -> i32 {
    use riscv_analysis::analysis::{AvailableValue, HasGenKillInfo, HasGenValueInfo, MemoryLocation};
    let one = |st: &str| -> Option<ParserNode> {
        let (nodes, errors) = RVStringParser::parse_from_text(&format!("{st}\nmain:\n"));
        if !errors.is_empty() { return None; }
        nodes.into_iter().find(|x| x.is_instruction())
    };
    // statement -> expected constant generated for rd (None = no constant may be claimed)
    let consts: [(&str, Option<i32>); 14] = [
        ("add t0, x0, x0", Some(0)), ("sub t0, x0, x0", Some(0)), ("div t0, x0, x0", Some(-1)), ("divu t0, x0, x0", Some(-1)),
        ("rem t0, x0, x0", Some(0)), ("mul t0, x0, x0", Some(0)), ("addi t0, x0, 5", Some(5)), ("li t0, -3", Some(-3)),
        ("andi t0, x0, 7", Some(0)), ("ori t0, x0, 7", Some(7)), ("xori t0, x0, 7", Some(7)), ("lui t0, 1", Some(4096)),
        ("add t0, t1, x0", None), ("addi x0, x0, 5", None),
    ];
    for (st, want) in consts {
        let Some(n) = one(st) else { println!("witness: {st:?} does not parse"); return 1; };
        let got = match n.gen_reg_value() { Some((_, AvailableValue::Constant(c))) => Some(c), _ => None };
        let bad = match (want, got) { (Some(w), Some(g)) => w != g, (None, Some(_)) => true, _ => false };
        if bad { println!("witness: after `{st}` the analyzer generates the constant {got:?}; the machine computes {want:?}"); return 1; }
    }
    for (st, tracked) in [("sw t0, 4(sp)", true), ("sb t0, 4(sp)", false), ("sh t0, 4(sp)", false), ("sw t0, 4(t1)", false)] {
        let Some(n) = one(st) else { println!("witness: {st:?} does not parse"); return 1; };
        let got = matches!(n.gen_memory_value(), Some((MemoryLocation::StackOffset(4), AvailableValue::RegisterWithScalar(_, 0))));
        if got != tracked { println!("witness: `{st}`: stack-slot fact generated = {got}, expected {tracked}"); return 1; }
    }
    for (st, want) in [("add t0, t1, t2", vec![5u8]), ("sw t0, 4(sp)", vec![]), ("beq t0, t1, main", vec![]), ("lw a0, 0(sp)", vec![10]),
                       ("add x0, t1, t2", vec![]), ("jal t0, main", vec![5])] {
        let Some(n) = one(st) else { println!("witness: {st:?} does not parse"); return 1; };
        let got: Vec<u8> = n.kill_reg().iter().map(|r| r.to_num()).collect();
        if got != want { println!("witness: `{st}`: kill set {got:?}, expected {want:?}"); return 1; }
    }
    println!("no failing input among the gen/kill sample statements");
    0
}

# unit `lines_n` — bounded native stand-in for the parser level of C07 (RVParser::parse_from_file, recover_from_parse_error:
# generic FileReader, Peekable, closures over iterator adapters: out of reach of Verus; Kani cannot run the lexer). Never counted as proved.
UNIT = {
    'unit': 'lines_n', 'backend': 'native',
    'functions': [{'file': 'riscv_analysis/src/parser/parsing.rs', 'item': 'impl RVParser<T> :: fn parse_from_file'},
                  {'file': 'riscv_analysis/src/parser/parsing.rs', 'item': 'impl RVParser<T> :: fn recover_from_parse_error'}],
    'obligations': [
        {'id': 'lines_n.files', 'recipe': ['lines-search'], 'props': ['C07'], 'kind': 'bounded',
         'bound': '13851 files: every malformed line of a pool of 14 (missing / bad / extra operand, unknown mnemonic or directive, stray character, '
                  'unclosed string / char / parenthesis, literal out of range) between, before and after every pair of a pool of 9 good lines, '
                  'with and without trailing newline, LF and CR LF, with blank and comment lines; plus 675 base+include file pairs with a malformed line in each file',
         'clause': 'every line holding more than blanks or a comment yields a node located on it or a parse error located on it; deleting a line that '
                   'produced an error leaves the nodes of every other line unchanged',
         'tier': 'quick'},
    ],
}

use riscv_analysis::cfg::MathOp;
use riscv_analysis::parser::Inst;
use std::panic::{catch_unwind, AssertUnwindSafe};

fn op_of(name: &str) -> Option<MathOp> {
    Some(match name {
        "add" => MathOp::Add, "and" => MathOp::And, "or" => MathOp::Or, "sll" => MathOp::Sll,
        "slt" => MathOp::Slt, "sltu" => MathOp::Sltu, "sra" => MathOp::Sra, "srl" => MathOp::Srl,
        "sub" => MathOp::Sub, "xor" => MathOp::Xor, "mul" => MathOp::Mul, "mulh" => MathOp::Mulh,
        "mulhsu" => MathOp::Mulhsu, "mulhu" => MathOp::Mulhu, "div" => MathOp::Div,
        "divu" => MathOp::Divu, "rem" => MathOp::Rem, "remu" => MathOp::Remu,
        _ => return None,
    })
}

/// RV32IM reference semantics (ISA manual), straightforward form.
pub fn rv32(op: &str, x: i32, y: i32) -> i32 {
    let (xu, yu) = (x as u32, y as u32);
    let sh = yu & 31;
    match op {
        "add" => x.wrapping_add(y),
        "sub" => x.wrapping_sub(y),
        "and" => x & y,
        "or" => x | y,
        "xor" => x ^ y,
        "sll" => (xu << sh) as i32,
        "srl" => (xu >> sh) as i32,
        "sra" => x >> sh,
        "slt" => (x < y) as i32,
        "sltu" => (xu < yu) as i32,
        "mul" => ((x as i64).wrapping_mul(y as i64)) as i32,
        "mulh" => (((x as i64) * (y as i64)) >> 32) as i32,
        "mulhsu" => (((x as i64) * (yu as i64)) >> 32) as i32,
        "mulhu" => (((xu as u64) * (yu as u64)) >> 32) as i32,
        "div" => if y == 0 { -1 } else if x == i32::MIN && y == -1 { i32::MIN } else { x / y },
        "divu" => if yu == 0 { -1 } else { (xu / yu) as i32 },
        "rem" => if y == 0 { x } else if x == i32::MIN && y == -1 { 0 } else { x % y },
        "remu" => if yu == 0 { x } else { (xu % yu) as i32 },
        other => panic!("unknown ALU operation {other}"),
    }
}

pub fn operate(name: &str, v: &serde_json::Value) -> i32 {
    let (Some(x), Some(y), Some(op)) = (crate::geti(v, "x"), crate::geti(v, "y"), op_of(name)) else {
        println!("need inputs x, y and a known operator");
        return 2;
    };
    let (x, y) = (x as i32, y as i32);
    let expected = rv32(name, x, y);
    match catch_unwind(AssertUnwindSafe(|| op.operate(x, y))) {
        Ok(actual) if actual == expected => {
            println!("MathOp::{name}.operate({x}, {y}) = {actual}; RV32IM says {expected}: agrees");
            0
        }
        Ok(actual) => {
            println!("MathOp::{name}.operate({x}, {y}) = {actual}; RV32IM says {expected}: WRONG VALUE");
            1
        }
        Err(_) => {
            println!("MathOp::{name}.operate({x}, {y}) PANICKED; RV32IM says {expected}");
            1
        }
    }
}

fn isa_alu(i: Inst) -> Option<&'static str> {
    Some(match i {
        Inst::Add | Inst::Addi => "add", Inst::Sub => "sub", Inst::And | Inst::Andi => "and",
        Inst::Or | Inst::Ori => "or", Inst::Xor | Inst::Xori => "xor", Inst::Sll | Inst::Slli => "sll",
        Inst::Srl | Inst::Srli => "srl", Inst::Sra | Inst::Srai => "sra", Inst::Slt | Inst::Slti => "slt",
        Inst::Sltu | Inst::Sltiu => "sltu", Inst::Mul => "mul", Inst::Mulh => "mulh",
        Inst::Mulhsu => "mulhsu", Inst::Mulhu => "mulhu", Inst::Div | Inst::Divw => "div",
        Inst::Divu => "divu", Inst::Rem | Inst::Remw => "rem", Inst::Remu | Inst::Remuw => "remu",
        _ => return None,
    })
}

/// probes distinguishing every pair of ALU operations
const PROBES: [(i32, i32); 8] = [(7, 3), (-7, 3), (i32::MIN, -1), (-1, -1), (1, 33), (-8, 1), (5, 0), (0x7fff_ffff, 2)];

fn names(op: &MathOp) -> Vec<&'static str> {
    // identify the MathOp by behaviour-independent discriminant
    let all = ["add", "and", "or", "sll", "slt", "sltu", "sra", "srl", "sub", "xor", "mul", "mulh", "mulhsu",
               "mulhu", "div", "divu", "rem", "remu"];
    all.iter().copied().filter(|n| std::mem::discriminant(&op_of(n).unwrap()) == std::mem::discriminant(op)).collect()
}

pub fn math_op(_v: &serde_json::Value) -> i32 {
    // the table is finite: re-check every instruction natively
    let mut bad = 0;
    for i in Inst::all() {
        if let Some(op) = i.math_op() {
            let got = names(&op)[0];
            match isa_alu(i) {
                Some(want) if want == got => {}
                Some(want) => {
                    let (x, y) = PROBES.iter().copied().find(|(x, y)| rv32(want, *x, *y) != rv32(got, *x, *y)).unwrap_or((0, 0));
                    println!("Inst::{i:?}.math_op() = {got}, the ISA says {want}: e.g. operands ({x}, {y}) fold to {} instead of {}", rv32(got, x, y), rv32(want, x, y));
                    bad += 1;
                }
                None => { println!("Inst::{i:?}.math_op() = {got}, but it is not an ALU instruction"); bad += 1; }
            }
        }
    }
    if bad == 0 { println!("math_op agrees with the ISA table on every instruction in Inst::all()"); 0 } else { 1 }
}

pub fn scalar_op(_v: &serde_json::Value) -> i32 {
    let mut bad = 0;
    for i in Inst::all() {
        if let Some(op) = i.scalar_op() {
            let got = names(&op)[0];
            let m = i.math_op().map(|m| names(&m)[0]);
            if !(got == "add" || got == "sub") || m != Some(got) {
                println!("Inst::{i:?}.scalar_op() = {got}, math_op = {m:?}");
                bad += 1;
            }
        }
    }
    if bad == 0 { println!("scalar_op is a restriction of math_op to add/sub"); 0 } else { 1 }
}

/// Counterexample *finder* for Verus obligations on `operate` (Verus gives no model):
/// boundary grid x pseudo-random pairs, real function vs. RV32IM reference.
pub fn search(_v: &serde_json::Value) -> i32 {
    let mut vals: Vec<i32> = vec![0, 1, -1, 2, -2, 3, -3, 5, 7, -7, 31, 32, 33, 63, 64, 0x7fff, 0x8000, 0xffff, 0x10000,
        i32::MAX, i32::MIN, i32::MAX - 1, i32::MIN + 1, 0x5555_5555, -0x5555_5556, 12345678, -12345678];
    let mut s: u64 = 0x9E37_79B9_7F4A_7C15;
    for _ in 0..40 {
        s = s.wrapping_mul(6364136223846793005).wrapping_add(1442695040888963407);
        vals.push((s >> 32) as i32);
    }
    let names = ["add", "and", "or", "sll", "slt", "sltu", "sra", "srl", "sub", "xor", "mul", "mulh", "mulhsu",
                 "mulhu", "div", "divu", "rem", "remu"];
    for n in names {
        for &x in &vals {
            for &y in &vals {
                let expected = rv32(n, x, y);
                let op = op_of(n).unwrap();
                let got = catch_unwind(AssertUnwindSafe(|| op.operate(x, y)));
                match got {
                    Ok(a) if a == expected => {}
                    Ok(a) => { println!("witness: MathOp::{n}.operate({x}, {y}) = {a}; RV32IM says {expected}: WRONG VALUE"); return 1; }
                    Err(_) => { println!("witness: MathOp::{n}.operate({x}, {y}) PANICKED; RV32IM says {expected}"); return 1; }
                }
            }
        }
    }
    println!("no failing input among {} operand pairs per operator", vals.len() * vals.len());
    0
}

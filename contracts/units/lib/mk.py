"""Derive the obligation list of a Verus unit from its sidecar (one per labelled clause + one `safe` per fn)."""


def make(unit, props_of, texts=None, search=None, default=None):
    texts = texts or {}
    name = unit['unit']
    for it in unit['items']:
        if 'fn' not in it:
            continue
        fn = it['fn']
        props = props_of.get(fn, default)
        if props is None:
            continue
        unit['functions'].append({'file': it['file'], 'item': it['item']})
        labels = [l for l, _ in it.get('ensures', [])]
        labels += [a.get('label') for a in it.get('anchors', []) if a.get('label') and a.get('label') != 'hint']
        for label in labels:
            ob = {'id': '%s.%s.%s' % (name, fn, label), 'fn': fn, 'label': label, 'props': props, 'kind': 'proof',
                  'clause': '%s: %s' % (fn, texts.get((fn, label), texts.get(label, label)))}
            if search:
                ob['search'] = search
            unit['obligations'].append(ob)
        ob = {'id': '%s.%s.safe' % (name, fn), 'fn': fn, 'label': 'safe', 'props': sorted(set(props + ['C06'])), 'kind': 'proof',
              'clause': '%s: no arithmetic overflow, no out-of-range index, no failing unwrap, callee preconditions hold, loops terminate' % fn}
        if search:
            ob['search'] = search
        unit['obligations'].append(ob)
    return unit

// ---- woven by /verif (unit `misc`): RefCellReplacement::replace_if_changed ----
#[cfg(kani)]
mod verif_kani_refcell {
    use super::RefCellReplacement;
    use std::cell::RefCell;

    /// replace_if_changed(new): afterwards the cell holds `new`; the result says exactly whether the content changed;
    /// it never panics when the cell is not borrowed (full i32 x i32 domain; the function is generic, i32 stands for T)
    #[kani::proof]
    fn replace_if_changed_contract() {
        let (old, new): (i32, i32) = (kani::any(), kani::any());
        let cell = RefCell::new(old);
        let changed = cell.replace_if_changed(new);
        assert!(changed == (old != new), "change flag is wrong");
        assert!(*cell.borrow() == new, "cell does not hold the new value");
        // a second call with the same value reports no change (what makes the fixed-point loops stop)
        assert!(!cell.replace_if_changed(new));
    }
}

// ---- woven by /verif (unit U3 `imm`); compiled only under cfg(kani) ----
// Property C17: a numeric literal is read as the two's-complement 32-bit value it denotes, the same
// value in different notations is read identically, a literal that does not fit in 32 bits or is
// malformed is rejected (never truncated, wrapped to a different number, or a crash).
#[cfg(kani)]
pub(crate) mod verif_kani_imm {
    use super::{CsrImm, Imm};
    use std::str::FromStr;

    // ===================== specification (written from the property, not from the code) ==========
    /// A literal denoting the integer v is accepted iff  -2^31 <= v <= 2^32 - 1.
    pub const LO: i128 = -(1i128 << 31);
    pub const HI: i128 = (1i128 << 32) - 1;

    /// The two's-complement reading of an accepted value: the unique w in [-2^31, 2^31) with
    /// w = v (mod 2^32).  For LO <= v <= HI that is v itself below 2^31 and v - 2^32 from 2^31 on.
    pub fn wrap32(v: i128) -> i32 {
        if v >= (1i128 << 31) { (v - (1i128 << 32)) as i32 } else { v as i32 }
    }

    /// Contract of `Imm::from_sign_and_magnitude` (sign is +1 or -1).
    pub fn sm_spec(sign: i32, magnitude: u32, r: &Result<Imm, ()>) -> bool {
        let v: i128 = (sign as i128) * (magnitude as i128);
        let fits = LO <= v && v <= HI;
        match r {
            Ok(i) => fits && i.0 == wrap32(v),
            Err(()) => !fits,
        }
    }

    fn is_ws(c: u8) -> bool { c == b' ' || (9 <= c && c <= 13) }

    fn digit(c: u8, radix: u32) -> Option<i128> {
        let d = match c {
            b'0'..=b'9' => (c - b'0') as u32,
            b'a'..=b'f' => (c - b'a') as u32 + 10,
            b'A'..=b'F' => (c - b'A') as u32 + 10,
            _ => return None,
        };
        if d < radix { Some(d as i128) } else { None }
    }

    /// Reference reader for ASCII literals (the oracle).  Grammar:
    ///   ws* '-'? ( "zero" | ( "0x" | "0b" | "" ) '+'? digit+ ) ws*      letters in either case
    /// ('+' directly in front of the digits is tolerated because Rust's integer parser tolerates it;
    /// it does not change the number).  Denotation = (-1 if '-') * sum digit_i * radix^i.
    /// Some(w): accepted with value w;  None: rejected.
    pub fn ref_parse(s: &[u8]) -> Option<i32> {
        let mut a = 0;
        let mut b = s.len();
        while a < b && is_ws(s[a]) { a += 1; }
        while b > a && is_ws(s[b - 1]) { b -= 1; }
        let s = &s[a..b];
        let (neg, s) = if !s.is_empty() && s[0] == b'-' { (true, &s[1..]) } else { (false, s) };
        if s.len() == 4 && (s[0] | 0x20) == b'z' && (s[1] | 0x20) == b'e' && (s[2] | 0x20) == b'r' && (s[3] | 0x20) == b'o' {
            return Some(0);
        }
        let (radix, s) = if s.len() >= 2 && s[0] == b'0' && (s[1] | 0x20) == b'x' { (16u32, &s[2..]) }
            else if s.len() >= 2 && s[0] == b'0' && (s[1] | 0x20) == b'b' { (2u32, &s[2..]) }
            else { (10u32, s) };
        let s = if !s.is_empty() && s[0] == b'+' { &s[1..] } else { s };
        if s.is_empty() { return None; }
        let mut m: i128 = 0;
        let mut i = 0;
        while i < s.len() {
            let d = digit(s[i], radix)?;
            // multiplication by a constant in each arm (a symbolic radix would cost a full multiplier)
            m = match radix { 16 => m * 16, 2 => m * 2, _ => m * 10 } + d;
            if m > HI + 1 { m = HI + 1; } // saturate: anything above HI is out of range anyway
            i += 1;
        }
        let v = if neg { -m } else { m };
        if v < LO || v > HI { return None; }
        Some(wrap32(v))
    }

    /// `Imm::from_str(s)` agrees with the oracle (and, being executed by Kani with all checks on, does not panic).
    fn check(s: &[u8]) {
        let want = ref_parse(s);
        // all bytes are ASCII (every alphabet below is), so this is a valid str
        let got = Imm::from_str(unsafe { core::str::from_utf8_unchecked(s) });
        kani::cover!(want.is_some(), "an accepted literal");
        kani::cover!(want.is_none(), "a rejected literal");
        match want {
            Some(v) => assert!(got == Ok(Imm(v)), "accepted literal read as a different value or rejected"),
            None => assert!(got == Err(()), "malformed or out-of-range literal accepted"),
        }
    }

    /// User-level CSR numbers (RISC-V privileged spec 1.11, table 2.2; "N" and "F" extensions, counters).
    pub const CSR_TABLE: [(&[u8], u32); 17] = [
        (b"ustatus", 0x000), (b"uie", 0x004), (b"utvec", 0x005),
        (b"uscratch", 0x040), (b"uepc", 0x041), (b"ucause", 0x042), (b"utval", 0x043), (b"uip", 0x044),
        (b"fflags", 0x001), (b"frm", 0x002), (b"fcsr", 0x003),
        (b"cycle", 0xC00), (b"time", 0xC01), (b"instret", 0xC02),
        (b"cycleh", 0xC80), (b"timeh", 0xC81), (b"instreth", 0xC82),
    ];

    /// `CsrImm::from_str(s)` on a string that is not a CSR name: the same reading as `Imm`, as a u32 bit pattern.
    /// (No alphabet below contains the letters needed to spell a CSR name.)
    fn check_csr(s: &[u8]) {
        let want = ref_parse(s);
        let got = CsrImm::from_str(unsafe { core::str::from_utf8_unchecked(s) });
        kani::cover!(want.is_some(), "an accepted literal");
        kani::cover!(want.is_none(), "a rejected literal");
        match want {
            Some(v) => assert!(matches!(got, Ok(CsrImm(u)) if u.to_ne_bytes() == v.to_ne_bytes()), "CSR literal read as a different value or rejected"),
            None => assert!(got == Err(()), "malformed or out-of-range CSR literal accepted"),
        }
    }

    // ===================== (a) from_sign_and_magnitude: function contract, all inputs =============
    #[kani::proof_for_contract(Imm::from_sign_and_magnitude)]
    fn sign_magnitude_contract() {
        let sign: i32 = kani::any();
        let magnitude: u32 = kani::any();
        let r = Imm::from_sign_and_magnitude(sign, magnitude);
        kani::cover!(r.is_ok() && sign == -1 && magnitude == 0x8000_0000);
        kani::cover!(r.is_ok() && sign == 1 && magnitude == u32::MAX);
        kani::cover!(r.is_err());
    }

    // ===================== (d) CsrImm <-> Imm: bit pattern preserved, all values ===================
    #[kani::proof]
    fn csr_imm_conversions() {
        let x: i32 = kani::any();
        let u: u32 = kani::any();
        kani::cover!(x < 0 && u >= 1u32 << 31, "values with the top bit set");
        let c = CsrImm::from(Imm(x));
        assert!(c.0.to_ne_bytes() == x.to_ne_bytes(), "Imm -> CsrImm changed the bit pattern");
        assert!((c.0 as i64) - (x as i64) == if x < 0 { 1i64 << 32 } else { 0 });
        let i = Imm::from(CsrImm(u));
        assert!(i.0.to_ne_bytes() == u.to_ne_bytes(), "CsrImm -> Imm changed the bit pattern");
        assert!((u as i64) - (i.0 as i64) == if u >= 1u32 << 31 { 1i64 << 32 } else { 0 });
        assert!(Imm::from(CsrImm::from(Imm(x))) == Imm(x), "Imm -> CsrImm -> Imm is not the identity");
        assert!(CsrImm::from(Imm::from(CsrImm(u))) == CsrImm(u), "CsrImm -> Imm -> CsrImm is not the identity");
        assert!(Imm::new(x).value() == x && CsrImm::new(u).value() == u);
    }

    // ===================== character literals: all chars ===========================================
    /// A character literal denotes its Unicode scalar value (always < 2^21, so it is the value itself).
    #[kani::proof]
    fn char_literal() {
        use crate::parser::{Range, Token, TokenType};
        let c: char = kani::any();
        let t = Token::new_without_text(TokenType::Char(c), Range::default(), uuid::Uuid::nil());
        kani::cover!(c as u32 > 0xFFFF, "a character outside the basic plane");
        let r = Imm::try_from(t);
        assert!(matches!(r, Ok(Imm(v)) if v >= 0 && v as u32 == c as u32), "char literal read as a different value");
    }

    // ===================== (b) bounded: the real from_str against the oracle =======================
    /// Model of `str::to_lowercase` on ASCII input (std documents the two as equal there).  The real
    /// function is Unicode-table driven and intractable for symbolic bytes (3 symbolic bytes: > 300 s);
    /// `lowercase_model_ascii_q0..q3` check the model against the real function on every 1-byte ASCII string.
    pub fn ascii_lower_model(s: &str) -> String { s.to_ascii_lowercase() }

    /// every character that plays a role in a literal + some that do not
    fn in_alpha(c: u8) -> bool {
        matches!(c, b'0'..=b'9' | b'a'..=b'f' | b'A'..=b'F' | b'x' | b'X' | b'-' | b'+' | b' ' | b'\t'
                  | b'z' | b'Z' | b'r' | b'R' | b'o' | b'O' | b'g' | b'_')
    }
    /// the same without the radix-prefix letters and `zero` (decimal notation only)
    fn in_dec_alpha(c: u8) -> bool {
        matches!(c, b'0'..=b'9' | b'-' | b'+' | b' ' | b'\t' | b'a' | b'F' | b'g' | b'_')
    }

    fn dec_digit(c: u8) -> bool { b'0' <= c && c <= b'9' }

    /// All strings  PREFIX ++ d[..k]  for every listed length k (all <= N) and every d with d[0] in LEAD, d[1..] in ALPHA.
    macro_rules! lit_harness {
        ($name:ident, $check:ident, $pre:expr, [$($k:expr),*], $hi:expr, $lead:ident, $alpha:ident, $unw:expr $(, $attr:meta)*) => {
            $(#[$attr])*
            #[kani::proof]
            #[kani::unwind($unw)]
            #[kani::stub(str::to_lowercase, ascii_lower_model)]
            fn $name() {
                const P: usize = $pre.len();
                const N: usize = $hi;
                let mut buf = [0u8; P + N];
                let mut i = 0;
                while i < P { buf[i] = $pre[i]; i += 1; }
                let mut i = 0;
                while i < N {
                    let c: u8 = kani::any();
                    kani::assume(if i == 0 { $lead(c) } else { $alpha(c) });
                    buf[P + i] = c;
                    i += 1;
                }
                // one call per length, written out (the same calls in a `while k <= N` loop were several times slower)
                $( $check(&buf[..P + $k]); )*
            }
        };
    }

    // -- every string over the alphabet, length <= 8
    lit_harness!(from_str_any_le2, check, b"", [0, 1, 2], 2, in_alpha, in_alpha, 8);
    lit_harness!(from_str_any_3, check, b"", [3], 3, in_alpha, in_alpha, 9);
    lit_harness!(from_str_any_4, check, b"", [4], 4, in_alpha, in_alpha, 10);
    lit_harness!(from_str_any_5, check, b"", [5], 5, in_alpha, in_alpha, 11);
    lit_harness!(from_str_any_6, check, b"", [6], 6, in_alpha, in_alpha, 12);
    lit_harness!(from_str_any_7, check, b"", [7], 7, in_alpha, in_alpha, 13);
    lit_harness!(from_str_any_8, check, b"", [8], 8, in_alpha, in_alpha, 14);
    // -- hexadecimal, one harness per digit-string length: 8 digits = all 32-bit values, 9 = one digit too many
    lit_harness!(from_str_hex_pos_5, check, b"0x", [5], 5, in_alpha, in_alpha, 13);
    lit_harness!(from_str_hex_pos_6, check, b"0x", [6], 6, in_alpha, in_alpha, 14);
    lit_harness!(from_str_hex_pos_7, check, b"0x", [7], 7, in_alpha, in_alpha, 15);
    lit_harness!(from_str_hex_pos_8, check, b"0x", [8], 8, in_alpha, in_alpha, 16);
    lit_harness!(from_str_hex_pos_9, check, b"0x", [9], 9, in_alpha, in_alpha, 17);
    lit_harness!(from_str_hex_neg_4, check, b"-0x", [4], 4, in_alpha, in_alpha, 13);
    lit_harness!(from_str_hex_neg_5, check, b"-0x", [5], 5, in_alpha, in_alpha, 14);
    lit_harness!(from_str_hex_neg_6, check, b"-0x", [6], 6, in_alpha, in_alpha, 15);
    lit_harness!(from_str_hex_neg_7, check, b"-0x", [7], 7, in_alpha, in_alpha, 16);
    lit_harness!(from_str_hex_neg_8, check, b"-0x", [8], 8, in_alpha, in_alpha, 17);
    lit_harness!(from_str_hex_neg_9, check, b"-0x", [9], 9, in_alpha, in_alpha, 18);
    // -- decimal (first character a digit): 10 digits = all 32-bit values, 11 = one digit too many
    lit_harness!(from_str_dec_pos_7, check, b"", [7], 7, dec_digit, in_dec_alpha, 13);
    lit_harness!(from_str_dec_pos_8, check, b"", [8], 8, dec_digit, in_dec_alpha, 14);
    lit_harness!(from_str_dec_pos_9, check, b"", [9], 9, dec_digit, in_dec_alpha, 15);
    lit_harness!(from_str_dec_pos_10, check, b"", [10], 10, dec_digit, in_dec_alpha, 16);
    lit_harness!(from_str_dec_pos_11, check, b"", [11], 11, dec_digit, in_dec_alpha, 17);
    lit_harness!(from_str_dec_neg_6, check, b"-", [6], 6, dec_digit, in_dec_alpha, 13);
    lit_harness!(from_str_dec_neg_7, check, b"-", [7], 7, dec_digit, in_dec_alpha, 14);
    lit_harness!(from_str_dec_neg_8, check, b"-", [8], 8, dec_digit, in_dec_alpha, 15);
    lit_harness!(from_str_dec_neg_9, check, b"-", [9], 9, dec_digit, in_dec_alpha, 16);
    lit_harness!(from_str_dec_neg_10, check, b"-", [10], 10, dec_digit, in_dec_alpha, 17);
    lit_harness!(from_str_dec_neg_11, check, b"-", [11], 11, dec_digit, in_dec_alpha, 18);
    // -- binary: 32 digits = all 32-bit values, 33 = one digit too many (lengths in between: with trailing blanks)
    lit_harness!(from_str_bin_pos_5, check, b"0b", [5], 5, in_alpha, in_alpha, 13);
    lit_harness!(from_str_bin_pos_6, check, b"0b", [6], 6, in_alpha, in_alpha, 14);
    lit_harness!(from_str_bin_pos_7, check, b"0b", [7], 7, in_alpha, in_alpha, 15);
    lit_harness!(from_str_bin_pos_8, check, b"0b", [8], 8, in_alpha, in_alpha, 16);
    lit_harness!(from_str_bin_pos_16, check, b"0b", [16], 16, in_alpha, in_alpha, 24);
    lit_harness!(from_str_bin_pos_24, check, b"0b", [24], 24, in_alpha, in_alpha, 32);
    lit_harness!(from_str_bin_pos_32, check, b"0b", [32], 32, in_alpha, in_alpha, 40);
    lit_harness!(from_str_bin_pos_33, check, b"0b", [33], 33, in_alpha, in_alpha, 41);
    lit_harness!(from_str_bin_neg_4, check, b"-0b", [4], 4, in_alpha, in_alpha, 13);
    lit_harness!(from_str_bin_neg_8, check, b"-0b", [8], 8, in_alpha, in_alpha, 17);
    lit_harness!(from_str_bin_neg_16, check, b"-0b", [16], 16, in_alpha, in_alpha, 25);
    lit_harness!(from_str_bin_neg_32, check, b"-0b", [32], 32, in_alpha, in_alpha, 41);
    lit_harness!(from_str_bin_neg_33, check, b"-0b", [33], 33, in_alpha, in_alpha, 42);
    // -- CsrImm::from_str on numeric literals
    lit_harness!(csr_from_str_hex_3, check_csr, b"0x", [3], 3, in_alpha, in_alpha, 11);
    lit_harness!(csr_from_str_any_3, check_csr, b"", [3], 3, in_alpha, in_alpha, 9);

    /// the to_lowercase model against the real function: every ASCII string of length 1, enumerated concretely
    /// (to_lowercase works character by character; its only context rule concerns the non-ASCII sigma).
    /// With a symbolic byte the real function does not terminate in 600 s (Unicode case tables).
    macro_rules! lowercase_model {
        ($name:ident, $from:expr, $to:expr) => {
            #[kani::proof]
            #[kani::unwind(34)]
            fn $name() {
                let mut c: u8 = $from;
                while c < $to {
                    let b = [c];
                    let s = unsafe { core::str::from_utf8_unchecked(&b) };
                    assert!(s.to_lowercase() == ascii_lower_model(s), "str::to_lowercase differs from the ASCII model");
                    c += 1;
                }
            }
        };
    }
    lowercase_model!(lowercase_model_ascii_q0, 0, 32);
    lowercase_model!(lowercase_model_ascii_q1, 32, 64);
    lowercase_model!(lowercase_model_ascii_q2, 64, 96);
    lowercase_model!(lowercase_model_ascii_q3, 96, 128);

    /// CSR names and numbers denote the same CSR: every name of the privileged-spec table is read as its number,
    /// i.e. identically to the number written as a literal; names are case-insensitive.
    fn csr_is(s: &str, num: u32) {
        assert!(CsrImm::from_str(s) == Ok(CsrImm(num)), "CSR operand read as a different number");
    }
    #[kani::proof]
    #[kani::unwind(12)]
    #[kani::stub(str::to_lowercase, ascii_lower_model)]
    fn csr_names_table() {
        csr_is("ustatus", 0x000); csr_is("uie", 0x004); csr_is("utvec", 0x005);
        csr_is("uscratch", 0x040); csr_is("uepc", 0x041); csr_is("ucause", 0x042); csr_is("utval", 0x043); csr_is("uip", 0x044);
        csr_is("fflags", 0x001); csr_is("frm", 0x002); csr_is("fcsr", 0x003);
        csr_is("cycle", 0xC00); csr_is("time", 0xC01); csr_is("instret", 0xC02);
        csr_is("cycleh", 0xC80); csr_is("timeh", 0xC81); csr_is("instreth", 0xC82);
        csr_is("FCSR", 0x003); csr_is("InstretH", 0xC82);
        csr_is("0xC82", 0xC82); csr_is("3074", 0xC02); csr_is("0b1000000", 0x040);
    }

    // ===================== (c) modular: the wrapper logic of from_str around the integer parser ===
    // `u32::from_str_radix` (which `str::parse::<u32>` delegates to with radix 10) is replaced by its documented
    // contract over a ghost denotation: "the digit string G_BODY denotes G_DEN in radix G_RADIX" (None = not a
    // digit string of that radix); the parser returns Ok(m) iff the denotation exists and fits in u32.  The
    // digit string itself is an opaque token, so the magnitude ranges over all of u64 (any number of digits).
    static mut G_BODY: &[u8] = b"";
    static mut G_RADIX: u32 = 0;
    static mut G_DEN: Option<u64> = None;
    static mut G_CALLS: u32 = 0;

    pub fn from_str_radix_contract(src: &str, radix: u32) -> Result<u32, core::num::ParseIntError> {
        unsafe {
            G_CALLS += 1;
            assert!(radix == G_RADIX, "digits handed to the integer parser with the wrong radix");
            assert!(src.as_bytes() == G_BODY, "the digit string was not handed to the integer parser unchanged");
            match G_DEN {
                Some(m) if m <= u32::MAX as u64 => Ok(m as u32),
                // (some ParseIntError; u8's parser is not stubbed)
                _ => Err(u8::from_str_radix("", 10).unwrap_err()),
            }
        }
    }

    /// one literal  blanks '-'? prefix TOKEN blanks  against the ghost denotation of TOKEN
    fn modular_case(lit: &'static str, neg: bool, radix: u32, den: Option<u64>) {
        unsafe { G_BODY = b"1"; G_RADIX = radix; G_DEN = den; G_CALLS = 0; }
        let got = Imm::from_str(lit);
        let want = match den {
            None => None,
            Some(m) => {
                let v = if neg { -(m as i128) } else { m as i128 };
                if LO <= v && v <= HI { Some(wrap32(v)) } else { None }
            }
        };
        kani::cover!(want.is_some() && neg, "an accepted negative literal");
        kani::cover!(want.is_none() && den.is_some(), "a well-formed literal rejected for its size");
        match want {
            Some(v) => assert!(got == Ok(Imm(v)), "accepted literal read as a different value or rejected"),
            None => assert!(got == Err(()), "malformed or out-of-range literal accepted"),
        }
        assert!(unsafe { G_CALLS } == 1, "the digits must be parsed exactly once");
    }

    macro_rules! modular_harness {
        ($name:ident, $radix:expr, [$(($lit:expr, $neg:expr)),*]) => {
            #[kani::proof]
            #[kani::unwind(12)]
            #[kani::stub(u32::from_str_radix, from_str_radix_contract)]
            fn $name() {
                // the ghost denotation of the digit token `1`: any u64 magnitude, or "malformed"
                let well_formed: bool = kani::any();
                let m: u64 = kani::any();
                let den = if well_formed { Some(m) } else { None };
                $( modular_case($lit, $neg, $radix, den); )*
            }
        };
    }
    modular_harness!(from_str_wrapper_dec, 10, [("1", false), ("-1", true), (" 1", false), ("\t-1 \t", true)]);
    modular_harness!(from_str_wrapper_hex, 16, [("0x1", false), ("-0x1", true), ("0X1", false), ("-0X1", true), (" 0x1", false), ("\t-0x1 \t", true)]);
    modular_harness!(from_str_wrapper_bin, 2, [("0b1", false), ("-0b1", true), ("0B1", false), ("-0B1", true), (" 0b1", false), ("\t-0b1 \t", true)]);
}

/// opaque stand-in for uuid::Uuid (copied and compared, never inspected)
#[derive(Clone, Copy)]
pub struct Uuid { pub v: u128 }

pub type RegisterToken = With<Register>;
pub type LabelStringToken = With<LabelString>;

// With<T> compares by its payload: the real `eq` body (with.rs) is extracted below and checked against this spec
impl<T> PartialEqSpecImpl<T> for With<T> where T: PartialEq<T> {
    open spec fn obeys_eq_spec() -> bool { T::obeys_eq_spec() }
    closed spec fn eq_spec(&self, other: &T) -> bool { self.underlying_data.eq_spec(other) }
}
impl<T> With<T> {
    pub closed spec fn sdata(self) -> T { self.underlying_data }
    pub closed spec fn stoken(self) -> Token { self.token }
}
impl Imm { pub closed spec fn sval(self) -> i32 { self.0 } }
impl CsrImm { pub closed spec fn sval(self) -> u32 { self.0 } }

/// derive(Clone) on With<T> is a field-wise clone; for every payload type used here (field-less enums,
/// Imm, CsrImm, LabelString, String) cloning preserves the value. Verus gives derived Clone impls of
/// non-Copy types no postcondition, so the derive is modelled here (trusted, listed).
impl<T: Clone> Clone for With<T> {
    #[verifier::external_body]
    fn clone(&self) -> (r: Self)
        ensures r.sdata() == self.sdata(), r.stoken() == self.stoken(),
    {
        With { token: self.token.clone(), underlying_data: self.underlying_data.clone() }
    }
}

/// derive(Clone) on Imm / LabelString: value-preserving (modelled, trusted; see With<T> above)
impl Clone for Imm {
    #[verifier::external_body]
    fn clone(&self) -> (r: Self) ensures r == *self { Imm(self.0) }
}
impl Clone for LabelString {
    #[verifier::external_body]
    fn clone(&self) -> (r: Self) ensures r == *self { LabelString(self.0.clone()) }
}

// =====================  architectural semantics (RISC-V unprivileged ISA, RARS pseudo-ops)  =====================
/// the register an instruction node writes (rd), if any
pub open spec fn arch_writes(n: ParserNode) -> Option<Register> {
    match n {
        ParserNode::Arith(x) => Some(x.rd.sdata()),
        ParserNode::IArith(x) => Some(x.rd.sdata()),
        ParserNode::Load(x) => Some(x.rd.sdata()),
        ParserNode::LoadAddr(x) => Some(x.rd.sdata()),
        ParserNode::JumpLink(x) => Some(x.rd.sdata()),     // jal rd, label: rd <- pc + 4
        ParserNode::JumpLinkR(x) => Some(x.rd.sdata()),    // jalr rd, imm(rs1)
        ParserNode::Csr(x) => Some(x.rd.sdata()),          // csrrw/s/c rd, csr, rs1
        ParserNode::CsrI(x) => Some(x.rd.sdata()),
        _ => None,                                         // stores, branches, ecall/ebreak/uret, labels, directives, entries
    }
}
/// the source registers of an instruction node, in operand order
pub open spec fn arch_reads(n: ParserNode) -> Seq<Register> {
    match n {
        ParserNode::Arith(x) => seq![x.rs1.sdata(), x.rs2.sdata()],
        ParserNode::IArith(x) => seq![x.rs1.sdata()],
        ParserNode::JumpLinkR(x) => seq![x.rs1.sdata()],
        ParserNode::Branch(x) => seq![x.rs1.sdata(), x.rs2.sdata()],
        ParserNode::Store(x) => seq![x.rs1.sdata(), x.rs2.sdata()],   // base address and stored value
        ParserNode::Load(x) => seq![x.rs1.sdata()],
        ParserNode::Csr(x) => seq![x.rs1.sdata()],
        _ => Seq::<Register>::empty(),                                // jal, la, csr*i (immediate), ecall (handled by the ecall table), ...
    }
}
pub open spec fn regs_of(v: Seq<With<Register>>) -> Seq<Register> { v.map_values(|w: With<Register>| w.sdata()) }

/// `ret` is `jalr x0, 0(ra)`; `uret` returns from a user-level handler
pub open spec fn arch_is_return(n: ParserNode) -> bool {
    match n {
        ParserNode::JumpLinkR(x) => x.inst.sdata() == JumpLinkRType::Jalr && x.rd.sdata() == Register::X0 && x.rs1.sdata() == Register::X1 && x.imm.sdata().sval() == 0,
        ParserNode::Basic(x) => x.inst.sdata() == BasicType::Uret,
        _ => false,
    }
}
pub open spec fn branch_taken(bt: BranchType, a: int, b: int) -> bool {
    match bt {
        BranchType::Beq => a == b,
        BranchType::Bne => a != b,
        BranchType::Blt => a < b,
        BranchType::Bge => a >= b,
        BranchType::Bltu => to_u32(a) < to_u32(b),
        BranchType::Bgeu => to_u32(a) >= to_u32(b),
    }
}
pub open spec fn to_u32(x: int) -> int { if x >= 0 { x } else { x + 0x1_0000_0000 } }
/// control never falls through to the next instruction (and does not come back as after a call)
pub open spec fn never_falls_through(n: ParserNode) -> bool {
    match n {
        ParserNode::JumpLink(x) => x.rd.sdata() != Register::X1,
        ParserNode::JumpLinkR(x) => x.rd.sdata() != Register::X1,
        // a branch whose two operands are the zero register compares 0 with 0
        ParserNode::Branch(x) => x.rs1.sdata() == Register::X0 && x.rs2.sdata() == Register::X0 && branch_taken(x.inst.sdata(), 0, 0),
        _ => false,
    }
}

/// R7: stands for `vector.into_iter().collect()` into HashSet<RegisterToken> (see nodes.py)
#[verifier::external_body]
pub fn verif_collect_register_set(v: Vec<RegisterToken>) -> HashSet<RegisterToken> {
    unimplemented!()   // never executed: this file is only verified, not run
}

# U3 `imm` — numeric literals (Imm / CsrImm readers)  (Kani: function contract + bounded string harnesses)
#
# Tool limits found while building this unit (Kani 0.68 / CBMC 6.11, measured on this machine):
#  * `str::to_lowercase` on symbolic bytes is intractable (3 symbolic ASCII bytes: > 300 s, 1 symbolic byte: > 600 s;
#    Unicode case tables).  Every harness that feeds symbolic bytes to `from_str` therefore stubs it with
#    `to_ascii_lowercase` (equal on ASCII by the std documentation; checked against the real function for all 128
#    ASCII characters by `imm.assume.lowercase_ascii.q*` and natively, for all ASCII strings of length <= 2, by the replay runner).
#  * a symbolic string *length* is intractable (length <= 3: > 300 s even with that stub): every harness uses concrete lengths; several
#    `from_str` calls in one harness cost more than the sum, so there is one harness per length.
#  * a fully symbolic string costs ~60 s + 15..40 s per byte (length 8: ~300 s = the budget; DESIGN's L = 12 is out of reach);
#    with a concrete prefix ("0x", "-0x", "0b", "-0b", "-") or a first character known to be a decimal digit the
#    symbolic part can be as long as the notation needs (hex 9, decimal 11, binary 33 characters).
#  * CaDiCaL (default) beats kissat on these; 10 fully symbolic characters (decimal overflow) take 450-500 s.
#  * `u32::from_str_radix` can be stubbed (`str::parse::<u32>` reaches it); that gives the modular `wrapper` harnesses.
H = 'parser::imm::verif_kani_imm::'
F = 'riscv_analysis/src/parser/imm.rs'

ALPHA = ("alphabet A = 0-9 a-f A-F x X - + blank tab z Z r R o O g _ (36 characters; contains every character with a role in a "
         "literal plus invalid ones)")
DEC_ALPHA = "alphabet D = 0-9 - + blank tab a F g _ (18 characters)"
LOWER = "; str::to_lowercase replaced by its ASCII model (see imm.assume.lowercase_ascii.*)"

# the numbers in the tables below are the measured `Verification Time` in seconds of `./check unit imm` (55 harnesses,
# 16 jobs, shared machine; about 1.5-2 x the time of a run with 4 jobs); timeout = 2 x measured rounded up to a minute,
# tier quick = measured < 120 s


def tmo(t):
    return max(120, int((2 * t + 59) // 60) * 60)


def ob(id_, harness, kind, clause, t, inputs=None, props=('C17', 'C06'), bound=None, assumes=None):
    o = {'id': 'imm.' + id_, 'harness': H + harness, 'props': list(props), 'kind': kind, 'clause': clause,
         'timeout': tmo(t), 'tier': 'quick' if t < 120 else 'thorough', 'inputs': inputs or [],
         'replay': ['imm', id_], 'measured_s': t}
    if bound:
        o['bound'] = bound
    if assumes:
        o['assumes'] = assumes
    return o


FAMILIES = {
    # family: (prefix, first-character class, alphabet text, what the digit part covers)
    'any': ('', None, ALPHA, 'every notation, sign, blank and letter-case mix'),
    'hex_pos': ('0x', None, ALPHA, 'hexadecimal'),
    'hex_neg': ('-0x', None, ALPHA, 'negated hexadecimal'),
    'dec_pos': ('', 'a decimal digit', DEC_ALPHA, 'decimal'),
    'dec_neg': ('-', 'a decimal digit', DEC_ALPHA, 'negated decimal'),
    'bin_pos': ('0b', None, ALPHA, 'binary'),
    'bin_neg': ('-0b', None, ALPHA, 'negated binary'),
}

# (family, length tag, list of lengths, measured seconds)
BOUNDED = [
    ('any', 'le2', [0, 1, 2], 187), ('any', '3', [3], 87), ('any', '4', [4], 138), ('any', '5', [5], 143), ('any', '6', [6], 230), ('any', '7', [7], 298), ('any', '8', [8], 297),
    ('hex_pos', '5', [5], 46), ('hex_pos', '6', [6], 103), ('hex_pos', '7', [7], 73), ('hex_pos', '8', [8], 96), ('hex_pos', '9', [9], 99),
    ('hex_neg', '4', [4], 118), ('hex_neg', '5', [5], 123), ('hex_neg', '6', [6], 96), ('hex_neg', '7', [7], 107), ('hex_neg', '8', [8], 148),
    ('hex_neg', '9', [9], 122),
    ('dec_pos', '7', [7], 208), ('dec_pos', '8', [8], 176), ('dec_pos', '9', [9], 168), ('dec_pos', '10', [10], 315), ('dec_pos', '11', [11], 222),
    ('dec_neg', '6', [6], 135), ('dec_neg', '7', [7], 120), ('dec_neg', '8', [8], 148), ('dec_neg', '9', [9], 250), ('dec_neg', '10', [10], 142),
    ('dec_neg', '11', [11], 158),
    ('bin_pos', '5', [5], 52), ('bin_pos', '6', [6], 68), ('bin_pos', '7', [7], 63), ('bin_pos', '8', [8], 56), ('bin_pos', '16', [16], 214),
    ('bin_pos', '24', [24], 266), ('bin_pos', '32', [32], 281), ('bin_pos', '33', [33], 418),
    ('bin_neg', '4', [4], 62), ('bin_neg', '8', [8], 115), ('bin_neg', '16', [16], 288), ('bin_neg', '32', [32], 503), ('bin_neg', '33', [33], 536),
]

WIDTH_NOTE = {
    ('hex_pos', '8'): ' (8 digits: every 32-bit value)', ('hex_neg', '8'): ' (8 digits: every 32-bit magnitude)',
    ('hex_pos', '9'): ' (one digit more than fits)', ('hex_neg', '9'): ' (one digit more than fits)',
    ('dec_pos', '10'): ' (10 digits: every 32-bit value, and 4294967296..9999999999 rejected)',
    ('dec_neg', '10'): ' (10 digits: every magnitude down to -2147483648, below rejected)',
    ('dec_pos', '11'): ' (one digit more than fits)', ('dec_neg', '11'): ' (one digit more than fits)',
    ('bin_pos', '32'): ' (32 digits: every 32-bit value)', ('bin_neg', '32'): ' (32 digits: every 32-bit magnitude)',
    ('bin_pos', '33'): ' (one digit more than fits)', ('bin_neg', '33'): ' (one digit more than fits)',
}


def bounded(fam, tag, ks, t):
    prefix, lead, alpha, what = FAMILIES[fam]
    n = max(ks)
    lens = 'length %d' % ks[0] if len(ks) == 1 else 'each length in %s' % ks
    bound = ('strings %r ++ w, w of %s, %sw over %s%s' % (
        prefix, lens, ('w[0] %s, rest of ' % lead) if lead else '', alpha, WIDTH_NOTE.get((fam, tag), '')))
    return ob('from_str.%s.%s' % (fam, tag), 'from_str_%s_%s' % (fam, tag), 'bounded',
              'Imm::from_str(s) == Ok(two\'s-complement reading of the denoted value) if -2^31 <= value <= 2^32-1 and the literal is '
              'well formed, Err(()) otherwise, and no panic: the real function against an independent reference reader (%s)' % what,
              t, inputs=[['d%d' % i, 'u8'] for i in range(n)], bound=bound + LOWER,
              assumes=['str::to_lowercase == to_ascii_lowercase on ASCII input (std documentation)'])


UNIT = {
    'unit': 'imm',
    'backend': 'kani',
    'crate': 'riscv_analysis',
    'weave': [
        {'file': F,
         'attrs': [
             {'item': 'impl Imm :: fn from_sign_and_magnitude',
              'lines': ['#[cfg_attr(kani, kani::requires(sign == 1 || sign == -1))]',
                        '#[cfg_attr(kani, kani::ensures(|r: &Result<Imm, ()>| verif_kani_imm::sm_spec(sign, magnitude, r)))]']},
         ],
         'append': 'kani/imm_harness.rs'},
    ],
    'functions': [
        {'file': F, 'item': 'impl Imm :: fn from_sign_and_magnitude'},
        {'file': F, 'item': 'impl Imm :: fn new'},
        {'file': F, 'item': 'impl Imm :: fn value'},
        {'file': F, 'item': 'impl FromStr for Imm :: fn from_str'},
        {'file': F, 'item': 'impl FromStr for CsrImm :: fn from_str'},
        {'file': F, 'item': 'impl TryFrom<Token> for Imm :: fn try_from'},
        {'file': F, 'item': 'impl From<Imm> for CsrImm :: fn from'},
        {'file': F, 'item': 'impl From<CsrImm> for Imm :: fn from'},
    ],
    'obligations': [
        ob('sign_magnitude.contract', 'sign_magnitude_contract', 'complete',
           'Imm::from_sign_and_magnitude(sign, m), sign = +-1: Ok(v) iff -2^31 <= sign*m <= 2^32-1, and then v is sign*m read as a '
           'two\'s-complement 32-bit pattern; Err(()) otherwise; never panics (function contract, proof_for_contract, all 2^33 inputs)',
           3, inputs=[['sign', 'i32'], ['magnitude', 'u32']]),
        ob('csr.conversions', 'csr_imm_conversions', 'complete',
           'CsrImm::from(Imm) and Imm::from(CsrImm) preserve the 32-bit pattern (u32 <-> i32 reinterpretation) and are mutually '
           'inverse, for all 2^32 values each; new/value are the identity',
           1, inputs=[['x', 'i32'], ['u', 'u32']]),
        ob('char_literal', 'char_literal', 'complete',
           'Imm::try_from(Char(c) token) == Ok(Unicode scalar value of c), non-negative, for every char',
           2, inputs=[['c', 'u32']]),
    ] + [bounded(*b) for b in BOUNDED] + [
        ob('from_str.wrapper.%s' % n, 'from_str_wrapper_%s' % n, 'bounded',
           'modular: with u32::from_str_radix (which str::parse::<u32> delegates to) replaced by its documented contract, '
           'Imm::from_str hands the digit string unchanged and with radix %d to the integer parser exactly once and returns '
           'sign*magnitude by the sign/magnitude contract, for every magnitude (any number of digits) and for malformed digits' % r,
           t, inputs=[['well_formed', 'bool'], ['m', 'u64']],
           bound='literal shapes %s around an opaque digit token whose ghost denotation ranges over all u64 magnitudes and '
                 '"malformed"; the real str::to_lowercase and trim are executed' % shapes,
           assumes=['u32::from_str_radix(d, r) == Ok(m) iff d is `+`? followed by one or more radix-r digits denoting m <= u32::MAX, '
                    'Err otherwise (std documentation); str::parse::<u32> == u32::from_str_radix(_, 10)'])
        for n, r, t, shapes in [('dec', 10, 36, "{'', '-', ' ', tab-'-'...blank-tab}"),
                                ('hex', 16, 56, "{'0x', '-0x', '0X', '-0X', ' 0x', tab-'-0x'...blank-tab}"),
                                ('bin', 2, 58, "{'0b', '-0b', '0B', '-0B', ' 0b', tab-'-0b'...blank-tab}")]
    ] + [
        ob('csr.from_str.hex.3', 'csr_from_str_hex_3', 'bounded',
           'CsrImm::from_str(s) on a string that is not a CSR name reads s exactly like Imm::from_str (as a u32 bit pattern), '
           'rejects what it rejects, never panics',
           101, inputs=[['d%d' % i, 'u8'] for i in range(3)],
           bound="strings '0x' ++ w, w of length 3 over " + ALPHA + LOWER,
           assumes=['str::to_lowercase == to_ascii_lowercase on ASCII input (std documentation)']),
        ob('csr.from_str.any.3', 'csr_from_str_any_3', 'bounded',
           'CsrImm::from_str(s) on a string that is not a CSR name reads s exactly like Imm::from_str (as a u32 bit pattern), '
           'rejects what it rejects, never panics',
           80, inputs=[['d%d' % i, 'u8'] for i in range(3)],
           bound='all strings of length 3 over ' + ALPHA + LOWER,
           assumes=['str::to_lowercase == to_ascii_lowercase on ASCII input (std documentation)']),
        ob('csr.names', 'csr_names_table', 'bounded',
           'a CSR operand written as a name or as a number denotes the same CSR: each of the 17 user-level CSR names of the '
           'privileged spec is read as its number, names are case-insensitive',
           124, props=('C17',),
           bound='the 17 names in lower case, 2 in mixed case, 3 numbers in hexadecimal / decimal / binary' + LOWER),
    ] + [
        ob('assume.lowercase_ascii.q%d' % q, 'lowercase_model_ascii_q%d' % q, 'complete',
           'assumption check: the real str::to_lowercase equals the ASCII model used by the bounded harnesses on every '
           'one-character ASCII string with code %d..%d (enumerated concretely; to_lowercase is character-wise on ASCII)' % (32 * q, 32 * q + 31),
           111, props=('C17',))
        for q in range(4)
    ],
}

# C06 (panic-freedom) is carried by the complete obligations and the modular wrapper harnesses only; the per-length
# bounded families decide C17 (keeps the C06 quick check short)
for _o in UNIT['obligations']:
    if _o['kind'] == 'bounded' and '.wrapper.' not in _o['id']:
        _o['props'] = [p for p in _o['props'] if p != 'C06']

// ---- woven by /verif (unit `excerpt`); compiled only under cfg(kani) ----
// C18 (source-excerpt clause) + C06 for `PrettyPrint::format_region(text, line, start, end)`.
//
// Contract (from the property: "each rendered source excerpt shows the line the diagnostic refers to
// with the marker under the reported columns"), for a one-line `text` (no '\n') with
//      first_non_ws <= start <= end <= number of chars of text
// (first_non_ws = char index of the first non-blank character; the diagnostic lies on a token, possibly on the
//  line terminator, which sits one past the last character of the line):
//   * no panic;
//   * exactly three lines, each terminated by '\n':   "{spc} |"
//                                                     " {line+1} | {text.trim()}"
//                                                     "{spc} | {blanks}{carets}"
//     where spc = (decimal width of line+1) + 1 spaces,
//           carets = exactly end-start+1 times '^', nothing after them,
//           blanks = exactly start-first_non_ws characters, all whitespace: the k-th one is the k-th
//                    character of the shown (left-trimmed) line if that is a tab or a printing blank (so
//                    tabs and wide spaces keep their width), else ' ' -- in particular a carriage return
//                    left on the line of a CR/LF file is NOT copied: it would send the marker back to
//                    column 0   ==> the marker starts under character `start` of the line.
// `reference()` renders exactly that by hand (no std::fmt, character pushes only) and the harness asserts
// `format_region(..) == reference(..)` byte for byte.
//
// std functions replaced (same observable behaviour; they only build panic messages, or only differ
// in the initial capacity of the result String):
//   core::result::unwrap_failed, <TryFromIntError as Debug>::fmt, core::str::slice_error_fail -> plain panic
//   alloc::fmt::format -> String::with_capacity(96) + the real `write_fmt` (instead of estimated_capacity())
// (see contracts/kani/memloc_harness.rs for why CBMC does not terminate without them).
#[cfg(kani)]
mod verif_kani_excerpt {
    use super::PrettyPrint;

    fn unwrap_failed_plain(_msg: &str, _e: &dyn core::fmt::Debug) -> ! {
        panic!("Result::unwrap()/expect() on an Err value inside std")
    }
    fn no_debug_try_from_int(_x: &core::num::TryFromIntError, _f: &mut core::fmt::Formatter<'_>) -> core::fmt::Result {
        panic!("Debug formatting of TryFromIntError reached")
    }
    fn slice_error_fail_plain(_s: &str, _begin: usize, _end: usize) -> ! {
        panic!("str slice index out of range or not on a char boundary")
    }
    fn format_cap96(args: core::fmt::Arguments<'_>) -> String {
        use core::fmt::Write;
        let mut out = String::with_capacity(96);
        match out.write_fmt(args) {
            Ok(()) => out,
            Err(_) => panic!("a formatting trait implementation returned an error"),
        }
    }

    macro_rules! h {
        ($(#[$doc:meta])* $name:ident, $unwind:literal, $body:block) => {
            $(#[$doc])*
            #[kani::proof]
            #[kani::unwind($unwind)]
            #[kani::stub(core::result::unwrap_failed, unwrap_failed_plain)]
            #[kani::stub(core::str::slice_error_fail, slice_error_fail_plain)]
            #[kani::stub(<core::num::TryFromIntError as core::fmt::Debug>::fmt, no_debug_try_from_int)]
            #[kani::stub(alloc::fmt::format, format_cap96)]
            fn $name() $body
        };
    }

    /// the reference rendering of the contract (see the file header)
    fn reference(chars: &[char], line: usize, start: usize, end: usize) -> String {
        fn dec(out: &mut String, mut n: usize) -> usize {
            let mut buf = [0u8; 20];
            let mut k = 20;
            loop {
                k -= 1;
                buf[k] = b'0' + (n % 10) as u8;
                n /= 10;
                if n == 0 { break; }
            }
            let width = 20 - k;
            while k < 20 { out.push(buf[k] as char); k += 1; }
            width
        }
        let n = chars.len();
        let mut first = 0;
        while first < n && chars[first].is_whitespace() { first += 1; }
        let mut last = n; // one past the last non-blank
        while last > first && chars[last - 1].is_whitespace() { last -= 1; }
        let mut num = String::new();
        let width = dec(&mut num, line + 1);
        let mut out = String::with_capacity(96);
        // line 1
        let mut k = 0;
        while k < width + 1 { out.push(' '); k += 1; }
        out.push_str(" |\n ");
        // line 2
        out.push_str(&num);
        out.push_str(" | ");
        let mut k = first;
        while k < last { out.push(chars[k]); k += 1; }
        out.push('\n');
        // line 3
        let mut k = 0;
        while k < width + 1 { out.push(' '); k += 1; }
        out.push_str(" | ");
        let mut k = first;
        while k < start {
            out.push(if k < n && (chars[k] == '\t' || (chars[k].is_whitespace() && !chars[k].is_control())) { chars[k] } else { ' ' });
            k += 1;
        }
        let mut k = start;
        while k <= end { out.push('^'); k += 1; }
        out.push('\n');
        out
    }

    fn first_non_ws(chars: &[char]) -> usize {
        let mut first = 0;
        while first < chars.len() && chars[first].is_whitespace() { first += 1; }
        first
    }

    /// byte-wise equality without a loop (64 unrolled comparisons), so that the harness-wide unwind bound
    /// need not cover the length of the rendered excerpt
    fn same(g: &[u8], w: &[u8]) -> bool {
        macro_rules! at { ($($i:literal)*) => { $( if g.get($i) != w.get($i) { return false; } )* } }
        if g.len() != w.len() || g.len() > 64 { return false; }
        at!(0 1 2 3 4 5 6 7 8 9 10 11 12 13 14 15 16 17 18 19 20 21 22 23 24 25 26 27 28 29 30 31
            32 33 34 35 36 37 38 39 40 41 42 43 44 45 46 47 48 49 50 51 52 53 54 55 56 57 58 59 60 61 62 63);
        true
    }

    /// one instance of the contract
    fn check(chars: &[char], line: usize, start: usize, end: usize) {
        // the instance must lie inside the contract's precondition
        let mut k = 0;
        while k < chars.len() { assert!(chars[k] != '\n'); k += 1; }
        assert!(first_non_ws(chars) <= start && start <= end && end <= chars.len());
        let mut text = String::with_capacity(32);
        let mut k = 0;
        while k < chars.len() { text.push(chars[k]); k += 1; }
        let got = PrettyPrint::format_region(&text, line, start, end);
        let want = reference(chars, line, start, end);
        assert!(same(got.as_bytes(), want.as_bytes()),
                "the excerpt is not the referred line with the marker under the reported columns");
        kani::cover!(got.len() > 12, "an excerpt was rendered and compared");
    }

    // Every harness is ONE concrete instance of the contract ("bounded: exactly this input").  Measured
    // limits of CBMC 6.11 on this function (with the stubs above, 300 s budget each):
    //   * symbolic text of 2 or 3 characters over {' ', '\t', 'a'} with symbolic columns: no verdict
    //     (the `chars().enumerate()` / `trim()` / `collect()` loops run over a string whose bytes are symbolic);
    //   * concrete text with symbolic columns, or a symbolic line number: CBMC dies with SIGSEGV while
    //     unwinding the doubling loop of `<[u8]>::repeat` with a symbolic count; with `str::repeat`
    //     replaced by an n-fold `push_str` model: no verdict.
    // One concrete instance needs 50-90 s.
    macro_rules! inst { ($($name:ident = ($text:expr, $line:expr, $start:expr, $end:expr);)*) => {
        $( h!($name, 16, { check(&$text, $line, $start, $end); }); )*
    } }

    inst! {
        // ASCII only (these hold on the current tree)
        c_plain = ([' ', ' ', 'a', 'd', 'd', ' ', 'x'], 6, 2, 4);            // indented, marker on the first token
        c_tab_two_digit_line = (['\t', 'a', '\t', 'b', ' '], 9, 3, 3);       // line 10: wider gutter; tab kept before the marker; trailing blank
        c_first_column = (['r', 'e', 't'], 0, 0, 0);                         // no indentation, one caret in column 0
        c_whole_line = ([' ', 'l', 'i', ' ', 'a', '0'], 41, 1, 5);           // marker to the last character
        // multi-byte blanks before the marker (current tree: FAIL -- candidate defect D15)
        c_nbsp_between = (['a', '\u{a0}', 'b'], 0, 2, 2);                    // panics: replace_range(2..) inside U+00A0
        c_ideographic_indent = (['\u{3000}', 'a', 'b'], 0, 2, 2);            // panics: text.get(1..) is None, base empty, replace_range(1..)
        c_ideographic_shift = (['a', '\u{3000}', ' ', ' ', 'b'], 0, 4, 4);   // no panic, marker two columns too far left
        // CR/LF file: the line keeps its '\r', the diagnostic is on the line terminator one past it
        c_crlf_newline_token = (['\t', 'a', 'd', 'd', '\r'], 3, 5, 5);
    }
}

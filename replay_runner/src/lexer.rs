//! Native counterexample finder for the lexer obligations (Verus gives no model):
//! exhaustive over all strings of length <= 4 over a 15-symbol alphabet, through the public API.
use riscv_analysis::parser::{LexError, Lexer, Token, TokenType};
use riscv_analysis::passes::DiagnosticLocation;
use std::panic::{catch_unwind, AssertUnwindSafe};

const ALPHA: [char; 18] = ['a', '0', ' ', ',', '\n', '\r', '.', '#', '"', '\'', '\\', '(', ':', '@', 'u', '\u{c}', '\u{a0}', '\u{3bb}'];

fn is_ws(c: char) -> bool { c == ' ' || c == '\t' || c == '\r' || c == ',' }
fn line_of(s: &[char], p: usize) -> usize { s[..p].iter().filter(|c| **c == '\n').count() }
fn col_of(s: &[char], p: usize) -> usize { p - s[..p].iter().rposition(|c| *c == '\n').map_or(0, |q| q + 1) }

fn consistent(s: &[char], line: usize, col: usize, raw: usize) -> bool {
    raw <= s.len() && line == line_of(s, raw) && col == col_of(s, raw)
}

fn check_token(s: &[char], t: &Token, is_err: bool) -> Result<(usize, usize), String> {
    let r = t.range();
    let (st, en) = (r.start(), r.end());
    let (a, b) = (st.raw_index(), en.raw_index());
    if !consistent(s, st.zero_idx_line(), st.zero_idx_column(), a) { return Err(format!("start position {st:?} is not consistent with the text")); }
    if !consistent(s, en.zero_idx_line(), en.zero_idx_column(), b) { return Err(format!("end position {en:?} is not consistent with the text")); }
    if a > b { return Err(format!("start {a} after end {b}")); }
    if is_err { return Ok((a, b)); }
    if b >= s.len() { return Err(format!("end offset {b} outside the text of length {}", s.len())); }
    let text: String = s[a..=b].iter().collect();
    let ok = match t.token_type() {
        TokenType::Newline => text == "\n",
        TokenType::LParen => text == "(",
        TokenType::RParen => text == ")",
        TokenType::Symbol(x) => *x == text,
        TokenType::Label(x) => format!("{x}:") == text,
        TokenType::Directive(x) => *x == text && text.starts_with('.'),
        TokenType::Comment(x) => format!("#{x}") == text,
        TokenType::String(_) => complete_literal(&text, '"'),
        TokenType::Char(_) => complete_literal(&text, '\''),
    };
    if !ok { return Err(format!("token {:?} does not match the text {text:?} of its range {a}..={b}", t.token_type())); }
    if *t.token_type() != TokenType::Newline && text.contains('\n') { return Err(format!("token spans a newline: {text:?}")); }
    Ok((a, b))
}

/// `text` is one whole quoted literal: opening quote, body in which a backslash escapes the next character, and the first
/// unescaped closing quote as its last character (so the range of a literal with escapes reaches its real end)
fn complete_literal(text: &str, quote: char) -> bool {
    let c: Vec<char> = text.chars().collect();
    if c.len() < 2 || c[0] != quote { return false; }
    // `'''` (an unescaped quote as the character) is accepted by the lexer
    if quote == '\'' && c.len() == 3 && c[1] == '\'' && c[2] == '\'' { return true; }
    let mut k = 1;
    while k < c.len() {
        if c[k] == '\\' { k += 2; continue; }
        if c[k] == quote { return k == c.len() - 1; }
        k += 1;
    }
    false
}

/// the value of a literal with escapes: Some(expected payload) or None when the literal must be rejected
fn check_literal(src: &str, want: Option<&str>) -> Option<String> {
    let items: Vec<_> = match catch_unwind(AssertUnwindSafe(|| Lexer::new(src, uuid::Uuid::nil()).take(8).collect::<Vec<_>>())) { Ok(v) => v, Err(_) => return Some(format!("lexer panicked on {src:?}")) };
    let first = items.first();
    match (first, want) {
        (Some(Ok(t)), Some(w)) => {
            let got = match t.token_type() { TokenType::String(s) => s.clone(), TokenType::Char(c) => c.to_string(), other => return Some(format!("{src:?} is read as {other:?}, expected the literal {w:?}")) };
            if got != w { return Some(format!("the literal {src:?} is read as {got:?}, it denotes {w:?}")); }
            let r = t.range();
            if r.end().raw_index() + 1 != src.chars().count() { return Some(format!("the token of {src:?} ends at offset {}, the literal ends at {}", r.end().raw_index(), src.chars().count() - 1)); }
            None
        }
        (Some(Ok(t)), None) => Some(format!("the malformed literal {src:?} is accepted as {:?}", t.token_type())),
        (Some(Err(_)), None) => None,
        (Some(Err(_)), Some(w)) => Some(format!("the literal {src:?} (= {w:?}) is rejected")),
        (None, _) => Some(format!("no token for {src:?}")),
    }
}

/// returns Some(description) when `src` violates a lexer obligation
pub fn check_source(src: &str) -> Option<String> {
    let s: Vec<char> = src.chars().collect();
    let items = match catch_unwind(AssertUnwindSafe(|| {
        let mut out = Vec::new();
        let mut lx = Lexer::new(src, uuid::Uuid::nil());
        for _ in 0..(2 * s.len() + 4) {
            match lx.next() { Some(x) => out.push(x), None => return Ok(out) }
        }
        Err(out.len())
    })) {
        Ok(Ok(v)) => v,
        Ok(Err(n)) => return Some(format!("lexer produced {n} items for {} characters: no progress / non-termination", s.len())),
        Err(_) => return Some("lexer panicked".to_string()),
    };
    let mut cursor = 0usize;      // everything before it is accounted for
    let mut after_string_error = false;
    for it in &items {
        let (a, b, string_err) = match it {
            Ok(t) => match check_token(&s, t, false) { Ok((a, b)) => (a, b, false), Err(e) => return Some(e) },
            Err(LexError::UnexpectedToken(t)) => match check_token(&s, t, true) { Ok((a, b)) => (a, b, false), Err(e) => return Some(e) },
            Err(LexError::InvalidString(t, _)) => match check_token(&s, t, true) { Ok((a, b)) => (a, b.max(a + 1) - 1, true), Err(e) => return Some(e) },
            Err(e) => return Some(format!("unexpected lexer error kind {e:?}")),
        };
        if a < cursor { return Some(format!("token at {a} overlaps text already consumed up to {cursor}")); }
        for i in cursor..a {
            let c = s[i];
            let skippable = is_ws(c) || (after_string_error && c != '\n');
            if !skippable { return Some(format!("character {c:?} at offset {i} was dropped silently (not in any token or error)")); }
        }
        cursor = b + 1;
        after_string_error = string_err;
    }
    for i in cursor..s.len() {
        let c = s[i];
        if !(is_ws(c) || (after_string_error && c != '\n')) {
            return Some(format!("token stream ended at offset {cursor} but {c:?} at offset {i} is neither blank nor reported"));
        }
    }
    None
}

pub fn search(v: &serde_json::Value) -> i32 {
    if let Some(src) = v.get("inputs").and_then(|i| i.get("s")).and_then(|s| s.as_str()) {
        return match check_source(src) {
            Some(why) => { println!("witness: source {src:?}: {why}"); 1 }
            None => { println!("source {src:?}: the real lexer satisfies the token-level obligations"); 0 }
        };
    }
    let mut n = 0u64;
    let mut buf: Vec<usize> = Vec::new();
    for len in 0..=4usize {
        buf.clear();
        buf.resize(len, 0);
        loop {
            let src: String = buf.iter().map(|i| ALPHA[*i]).collect();
            n += 1;
            if let Some(why) = check_source(&src) {
                println!("witness: source {src:?}: {why}");
                return 1;
            }
            // next
            let mut k = 0;
            while k < len { buf[k] += 1; if buf[k] < ALPHA.len() { break; } buf[k] = 0; k += 1; }
            if k == len { break; }
        }
    }
    // a few longer, realistic lines
    for src in ["add t0, t1\n  sub t0\n", "\nadd t0", ".asciz \"hi\"\nadd t0", "\"s\"(x)", "a\r\nb", "a @ b\nc", "lw a0, 4(sp)", ". x", "x.",
                "'a", "\"ab", "lbl: li a0, 'x' # c\n\n\tret", "\"\\u03bb\" 'q'", ".string \"a\\qb\" x\ny",
                // escapes cut short by the end of the text, and white space that is not a lexer blank
                "\"\\u03b", "\"\\u03", "\"\\u0", "\"\\u", "'\\u03'", "'\\u03", "\"\\uzzz", "\"\\", "'\\", "\"a\\\nb c\nd",
                "main:\n    li a0, 1\n\u{c}\nfoo:\n    ret\n", "a\u{2028}b\nc", "\u{3000}x", "li t0, '\u{3bb}'\nli t1, 'é'"] {
        n += 1;
        if let Some(why) = check_source(src) { println!("witness: source {src:?}: {why}"); return 1; }
    }
    // literals with escapes: value, extent, and malformed escapes
    let lits: [(&str, Option<&str>); 22] = [
        ("'a'", Some("a")), ("'\\n'", Some("\n")), ("'\\t'", Some("\t")), ("'\\''", Some("'")), ("'\\\\'", Some("\\")), ("'\\\"'", Some("\"")),
        ("'\\u0041'", Some("A")), ("'\\u03bb'", Some("\u{3bb}")), ("'\\u03BB'", Some("\u{3bb}")),
        ("\"a\\tb\\n\"", Some("a\tb\n")), ("\"q\\\"q\"", Some("q\"q")), ("\"\\u0041\\u0042\"", Some("AB")), ("\"\"", Some("")),
        ("'\\u+041'", None), ("'\\u-041'", None), ("'\\u 041'", None), ("'\\u004g'", None), ("'\\u41'", None), ("'\\q'", None),
        ("\"\\u+041\"", None), ("\"\\uD800\"", None), ("'ab'", None),
    ];
    for (src, want) in lits {
        n += 1;
        if let Some(why) = check_literal(src, want) { println!("witness: {why}"); return 1; }
    }
    println!("no failing input among {n} source texts (all strings of length <= 4 over {} symbols, plus samples)", ALPHA.len());
    0
}

// =====================  unit `rules`: value-analysis rewrite rules against a machine-state semantics of the facts  =====================
pub type MemoryAddr = int;

/// derive(Hash, Eq) on the field-less enum Register and on MemoryLocation agree with each other and are deterministic, which is
/// what vstd's HashMap model asks of a key type (trusted statement about the derives)
#[verifier::external_body]
pub proof fn axiom_register_key_model() ensures vstd::std_specs::hash::obeys_key_model::<Register>() {}
#[verifier::external_body]
pub proof fn axiom_memloc_key_model() ensures vstd::std_specs::hash::obeys_key_model::<MemoryLocation>() {}

/// derive(PartialEq) on AvailableValue: variant-wise; `Address` holds a With<LabelString>, whose equality compares the label only
pub open spec fn av_eq(a: AvailableValue, b: AvailableValue) -> bool {
    match (a, b) {
        (AvailableValue::Address(x), AvailableValue::Address(y)) => x.sdata() == y.sdata(),
        (AvailableValue::Address(_), _) => false,
        (_, AvailableValue::Address(_)) => false,
        _ => a == b,
    }
}
impl PartialEqSpecImpl for AvailableValue {
    open spec fn obeys_eq_spec() -> bool { true }
    open spec fn eq_spec(&self, other: &AvailableValue) -> bool { av_eq(*self, *other) }
}
impl PartialEq for AvailableValue {
    #[verifier::external_body]
    fn eq(&self, other: &Self) -> (r: bool) ensures r == av_eq(*self, *other) { unimplemented!() }
}
impl Eq for AvailableValue {}
/// derive(Clone) on AvailableValue: value-preserving up to the token carried by an `Address` (modelled, trusted)
impl Clone for AvailableValue {
    #[verifier::external_body]
    fn clone(&self) -> (r: Self) ensures av_eq(*self, r), !(*self is Address) ==> r == *self { unimplemented!() }
}
impl PartialEqSpecImpl for MemoryLocation {
    open spec fn obeys_eq_spec() -> bool { true }
    open spec fn eq_spec(&self, other: &MemoryLocation) -> bool { *self == *other }
}
impl PartialEq for MemoryLocation {
    #[verifier::external_body]
    fn eq(&self, other: &Self) -> (r: bool) ensures r == (*self == *other) { unimplemented!() }
}
impl Eq for MemoryLocation {}
/// derive(Clone) on MemoryLocation (i32 / CsrImm payloads): value-preserving (modelled, trusted)
impl Clone for MemoryLocation {
    #[verifier::external_body]
    fn clone(&self) -> (r: Self) ensures r == *self { unimplemented!() }
}
impl core::hash::Hash for MemoryLocation {
    #[verifier::external_body]
    fn hash<H: core::hash::Hasher>(&self, state: &mut H) { unimplemented!() }
}
impl core::hash::Hash for Register {
    #[verifier::external_body]
    fn hash<H: core::hash::Hasher>(&self, state: &mut H) { unimplemented!() }
}

impl<T: PartialEq + Eq + Hash> AvailableValueMap<T> {
    pub closed spec fn view(self) -> Map<T, AvailableValue> { self.map@ }
}

// ---------------------  machine states and the meaning of a fact  ---------------------
/// one RV32 machine state, as far as the facts talk about it: register file, memory as the 32-bit word found at a byte
/// address, CSR file. Values are i32 as mathematical integers.
pub struct St {
    pub regs: Map<Register, int>,
    pub mem: Map<int, int>,
    pub csr: Map<CsrImm, int>,
}
/// what stays fixed during one activation: the register file at entry to the enclosing function, the address of each label
pub struct Ctx {
    pub entry: Map<Register, int>,
    pub label: Map<LabelString, int>,
}
pub open spec fn wrap32(v: int) -> int { let m = v % 0x1_0000_0000; if m < 0x8000_0000 { m } else { m - 0x1_0000_0000 } }
pub open spec fn is_i32(v: int) -> bool { -0x8000_0000 <= v < 0x8000_0000 }
pub open spec fn wf_state(s: St, c: Ctx) -> bool {
    &&& s.regs[Register::X0] == 0 && c.entry[Register::X0] == 0
    &&& forall|r: Register| is_i32(#[trigger] s.regs[r]) && is_i32(#[trigger] c.entry[r])
}

/// "the location holds value x" for a fact v, in state s of an activation c.
/// The property speaks of constants, label addresses and entry-value-plus-constant; the remaining kinds are the
/// analyzer's intermediate notions: those that depend on nothing but the state and the activation get their meaning too
/// (memory at an entry-relative or label-relative address), those relative to the *current* value of some register carry
/// no claim here (except relative to x0, which is 0), nor do CSR facts.
pub open spec fn holds(v: AvailableValue, x: int, s: St, c: Ctx) -> bool {
    match v {
        AvailableValue::Constant(k) => x == k,
        AvailableValue::Address(l) => x == c.label[l.sdata()],
        AvailableValue::OriginalRegisterWithScalar(r, k) => x == wrap32(c.entry[r] + k),
        AvailableValue::Memory(l, off) => x == s.mem[wrap32(c.label[l] + off)],
        AvailableValue::MemoryAtOriginalRegister(r, k) => x == s.mem[wrap32(c.entry[r] + k)],
        AvailableValue::RegisterWithScalar(r, k) => r == Register::X0 ==> x == k,
        AvailableValue::MemoryAtRegister(_, _) => true,
        AvailableValue::ValueInCsr(_) => true,
        AvailableValue::MemoryAtCsr(_, _) => true,
    }
}
/// facts attached to registers; `with_x0`: whether the fact attached to x0 itself counts (out-maps may hold a fact for a
/// "written" x0 until the transfer function removes it)
pub open spec fn sound_regs(m: Map<Register, AvailableValue>, s: St, c: Ctx, with_x0: bool) -> bool {
    forall|r: Register| #[trigger] m.contains_key(r) && (with_x0 || r != Register::X0) ==> holds(m[r], s.regs[r], s, c)
}
/// the value found at a tracked memory location
pub open spec fn loc_value(l: MemoryLocation, s: St, c: Ctx) -> int {
    match l {
        MemoryLocation::StackOffset(o) => s.mem[wrap32(c.entry[Register::X2] + o)],
        MemoryLocation::CsrRegister(n) => s.csr[n],
        MemoryLocation::CsrRegisterValueOffset(n, o) => s.mem[wrap32(s.csr[n] + o)],
    }
}
pub open spec fn sound_mem(m: Map<MemoryLocation, AvailableValue>, s: St, c: Ctx) -> bool {
    forall|l: MemoryLocation| #[trigger] m.contains_key(l) ==> holds(m[l], loc_value(l, s, c), s, c)
}

/// the effect of a full-word load `lw rd, imm(rs1)` from state `pre` to state `post` (RISC-V unprivileged ISA)
pub open spec fn step_lw(n: ParserNode, pre: St, post: St) -> bool {
    n matches ParserNode::Load(x) && x.inst.sdata() == LoadType::Lw && {
        let addr = wrap32(pre.regs[x.rs1.sdata()] + x.imm.sdata().sval());
        &&& post.mem == pre.mem && post.csr == pre.csr
        &&& forall|r: Register| r != x.rd.sdata() ==> post.regs[r] == #[trigger] pre.regs[r]
        &&& x.rd.sdata() != Register::X0 ==> post.regs[x.rd.sdata()] == pre.mem[addr]
    }
}

/// premise of rule_expand_address_for_load: when the node is a full-word load, post is pre after executing it
pub open spec fn lw_premise(n: ParserNode, pre: St, post: St) -> bool {
    (n matches ParserNode::Load(x) && x.inst.sdata() == LoadType::Lw) ==> step_lw(n, pre, post)
}
/// carve-out of rule_value_from_stack: the fact of the written register is a CSR fact (CSR facts carry no claim in this unit)
pub open spec fn csr_fact_on_written(n: ParserNode, out: Map<Register, AvailableValue>) -> bool {
    arch_writes(n) matches Some(rd) && out.contains_key(rd) && out[rd] is ValueInCsr
}
/// no register is described as "the value of a CSR" (true throughout a program without CSR instructions)
pub open spec fn no_csr_fact(m: Map<Register, AvailableValue>) -> bool {
    forall|r: Register| #[trigger] m.contains_key(r) ==> !(m[r] is ValueInCsr)
}
pub proof fn lemma_holds_eq(a: AvailableValue, b: AvailableValue, x: int, s: St, c: Ctx)
    requires av_eq(a, b),
    ensures holds(a, x, s, c) == holds(b, x, s, c),
{}
pub proof fn lemma_holds_same_mem(a: AvailableValue, x: int, s: St, t: St, c: Ctx)
    requires s.mem == t.mem,
    ensures holds(a, x, s, c) == holds(a, x, t, c),
{}

/// i32::wrapping_add as the ISA's 32-bit addition
pub open spec fn wadd(a: i32, b: i32) -> i32 { wrap32(a as int + b as int) as i32 }

// ---------------------  ALU instructions  ---------------------
/// ISA manual: the ALU operation an R-type / I-type mnemonic performs on (rs1, rs2) or (rs1, immediate); None for every other
/// mnemonic (the RV64 `w` forms of div/rem restricted to 32-bit values behave like their base form)
pub open spec fn isa_alu_of(i: Inst) -> Option<MathOp> {
    match i {
        Inst::Add | Inst::Addi => Some(MathOp::Add),
        Inst::Sub => Some(MathOp::Sub),
        Inst::And | Inst::Andi => Some(MathOp::And),
        Inst::Or | Inst::Ori => Some(MathOp::Or),
        Inst::Xor | Inst::Xori => Some(MathOp::Xor),
        Inst::Sll | Inst::Slli => Some(MathOp::Sll),
        Inst::Srl | Inst::Srli => Some(MathOp::Srl),
        Inst::Sra | Inst::Srai => Some(MathOp::Sra),
        Inst::Slt | Inst::Slti => Some(MathOp::Slt),
        Inst::Sltu | Inst::Sltiu => Some(MathOp::Sltu),
        Inst::Mul => Some(MathOp::Mul),
        Inst::Mulh => Some(MathOp::Mulh),
        Inst::Mulhsu => Some(MathOp::Mulhsu),
        Inst::Mulhu => Some(MathOp::Mulhu),
        Inst::Div | Inst::Divw => Some(MathOp::Div),
        Inst::Divu => Some(MathOp::Divu),
        Inst::Rem | Inst::Remw => Some(MathOp::Rem),
        Inst::Remu | Inst::Remuw => Some(MathOp::Remu),
        _ => None,
    }
}
/// the RV32IM result of an ALU operation on two 32-bit operands. Addition and subtraction are spelled out (the rule reasons
/// about them); the other sixteen are left abstract here: their values are decided in units `ops` (Kani, bit level) and `ops_v`
pub uninterp spec fn alu_other(op: MathOp, x: int, y: int) -> int;
pub open spec fn alu_int(op: MathOp, x: int, y: int) -> int {
    match op { MathOp::Add => wrap32(x + y), MathOp::Sub => wrap32(x - y), _ => alu_other(op, x, y) }
}
impl MathOp {
    /// ASSUMED HERE, DISCHARGED ELSEWHERE: MathOp::operate computes the RV32IM result (obligations ops.operate.* and ops_v.operate.post.*)
    #[verifier::external_body]
    pub fn operate(&self, x: i32, y: i32) -> (r: i32)
        ensures r as int == alu_int(*self, x as int, y as int)
    { unimplemented!() }
}
/// the mnemonic under which a node reports itself
pub uninterp spec fn node_mnemonic(n: ParserNode) -> Inst;
impl ParserNode {
    /// ASSUMED HERE, DISCHARGED ELSEWHERE: ParserNode::inst reports a mnemonic that means the node's own operation (obligations inst_k.node.*)
    #[verifier::external_body]
    pub fn inst(&self) -> (r: Inst) ensures r == node_mnemonic(*self) { unimplemented!() }
}
/// the effect of an R-type / I-type ALU instruction from state `pre` to state `post`: rd receives the result of the operation
/// the ISA assigns to the mnemonic, applied to (rs1, rs2) resp. (rs1, immediate); nothing is said about other nodes
pub open spec fn alu_premise(n: ParserNode, pre: St, post: St) -> bool {
    match n {
        ParserNode::Arith(x) => isa_alu_of(node_mnemonic(n)) matches Some(op) ==> (x.rd.sdata() != Register::X0 ==>
            post.regs[x.rd.sdata()] == alu_int(op, pre.regs[x.rs1.sdata()], pre.regs[x.rs2.sdata()])),
        ParserNode::IArith(x) => isa_alu_of(node_mnemonic(n)) matches Some(op) ==> (x.rd.sdata() != Register::X0 ==>
            post.regs[x.rd.sdata()] == alu_int(op, pre.regs[x.rs1.sdata()], x.imm.sdata().sval() as int)),
        _ => true,
    }
}

// ---- rule_perform_math_ops in two steps: what the computed `result` is (syntactic), and why such a result is true (lemma) ----
pub open spec fn fact_of(inn: Map<Register, AvailableValue>, r: Register) -> Option<AvailableValue> {
    if inn.contains_key(r) { Some(inn[r]) } else { None }
}
pub open spec fn opd_lhs(n: ParserNode, inn: Map<Register, AvailableValue>) -> Option<AvailableValue> {
    match n {
        ParserNode::Arith(x) => fact_of(inn, x.rs1.sdata()),
        ParserNode::IArith(x) => fact_of(inn, x.rs1.sdata()),
        _ => None,
    }
}
pub open spec fn opd_rhs(n: ParserNode, inn: Map<Register, AvailableValue>) -> Option<AvailableValue> {
    match n {
        ParserNode::Arith(x) => fact_of(inn, x.rs2.sdata()),
        ParserNode::IArith(x) => Some(AvailableValue::Constant(x.imm.sdata().sval())),
        _ => None,
    }
}
pub open spec fn math_result_spec(n: ParserNode, inn: Map<Register, AvailableValue>, res: Option<AvailableValue>) -> bool {
    res matches Some(v) ==> {
        let op = isa_alu_of(node_mnemonic(n));
        match (opd_lhs(n, inn), opd_rhs(n, inn)) {
            (Some(AvailableValue::Constant(x)), Some(AvailableValue::Constant(y))) =>
                op is Some && (v matches AvailableValue::Constant(z) && z as int == alu_int(op->Some_0, x as int, y as int)),
            (Some(AvailableValue::OriginalRegisterWithScalar(r, x)), Some(AvailableValue::Constant(y))) =>
                op is Some && (op->Some_0 is Add || op->Some_0 is Sub)
                && (v matches AvailableValue::OriginalRegisterWithScalar(r2, z) && r2 == r && z as int == alu_int(op->Some_0, x as int, y as int)),
            (Some(AvailableValue::Constant(x)), Some(AvailableValue::OriginalRegisterWithScalar(r, y))) =>
                op == Some(MathOp::Add)
                && (v matches AvailableValue::OriginalRegisterWithScalar(r2, z) && r2 == r && z as int == alu_int(MathOp::Add, x as int, y as int)),
            _ => false,
        }
    }
}
pub open spec fn wrap_k(v: int) -> int { if v % 0x1_0000_0000 < 0x8000_0000 { -(v / 0x1_0000_0000) } else { -(v / 0x1_0000_0000) - 1 } }
/// wrap32 subtracts a multiple of 2^32 ...
pub proof fn lemma_wrap_k(v: int)
    ensures wrap32(v) == v + 0x1_0000_0000 * wrap_k(v),
{
    vstd::arithmetic::div_mod::lemma_fundamental_div_mod(v, 0x1_0000_0000);
}
/// ... and does not see multiples of 2^32
pub proof fn lemma_wrap_congruent(a: int, b: int, k: int)
    requires a == b + 0x1_0000_0000 * k,
    ensures wrap32(a) == wrap32(b),
{
    vstd::arithmetic::div_mod::lemma_mod_multiples_vanish(k, b, 0x1_0000_0000);
}
/// 32-bit addition and subtraction may be carried out in any order and wrapped at any point
pub proof fn lemma_wrap_arith(e: int, x: int, y: int)
    ensures
        wrap32(wrap32(e + x) + y) == wrap32(e + wrap32(x + y)),
        wrap32(wrap32(e + x) - y) == wrap32(e + wrap32(x - y)),
        wrap32(x + wrap32(e + y)) == wrap32(e + wrap32(x + y)),
{
    lemma_wrap_k(e + x); lemma_wrap_k(x + y); lemma_wrap_k(x - y); lemma_wrap_k(e + y);
    lemma_wrap_congruent(wrap32(e + x) + y, e + x + y, wrap_k(e + x));
    lemma_wrap_congruent(e + wrap32(x + y), e + x + y, wrap_k(x + y));
    lemma_wrap_congruent(wrap32(e + x) - y, e + x - y, wrap_k(e + x));
    lemma_wrap_congruent(e + wrap32(x - y), e + x - y, wrap_k(x - y));
    lemma_wrap_congruent(x + wrap32(e + y), e + x + y, wrap_k(e + y));
}
/// wrap32 on the sum of two 32-bit values, spelled without `%` (the form in which vstd states i32::wrapping_add)
pub proof fn lemma_wrap_small(v: int)
    requires -0x1_0000_0000 <= v < 0x1_0000_0000,
    ensures wrap32(v) == (if v >= 0x8000_0000 { v - 0x1_0000_0000 } else if v < -0x8000_0000 { v + 0x1_0000_0000 } else { v }),
{
    let r = if v >= 0x8000_0000 { v - 0x1_0000_0000 } else if v < -0x8000_0000 { v + 0x1_0000_0000 } else { v };
    let k = if v >= 0x8000_0000 { 1int } else if v < -0x8000_0000 { -1int } else { 0int };
    lemma_wrap_congruent(v, r, k);
    // r is already in range: wrap32(r) == r
    if r >= 0 { vstd::arithmetic::div_mod::lemma_small_mod(r as nat, 0x1_0000_0000); }
    else { lemma_wrap_congruent(r, r + 0x1_0000_0000, -1); vstd::arithmetic::div_mod::lemma_small_mod((r + 0x1_0000_0000) as nat, 0x1_0000_0000); }
}
pub proof fn lemma_math_sound(n: ParserNode, inn: Map<Register, AvailableValue>, v: AvailableValue, rd: Register, pre: St, post: St, c: Ctx)
    requires
        math_result_spec(n, inn, Some(v)), arch_writes(n) == Some(rd), rd != Register::X0,
        wf_state(pre, c), wf_state(post, c), alu_premise(n, pre, post), sound_regs(inn, pre, c, true),
    ensures holds(v, post.regs[rd], post, c),
{
    let op = isa_alu_of(node_mnemonic(n))->Some_0;
    match n {
        ParserNode::Arith(x) => {
            let (r1, r2) = (x.rs1.sdata(), x.rs2.sdata());
            assert(inn.contains_key(r1) && inn.contains_key(r2));
            assert(holds(inn[r1], pre.regs[r1], pre, c));
            assert(holds(inn[r2], pre.regs[r2], pre, c));
            assert(post.regs[rd] == alu_int(op, pre.regs[r1], pre.regs[r2]));
            match (inn[r1], inn[r2]) {
                (AvailableValue::OriginalRegisterWithScalar(r, a), AvailableValue::Constant(b)) => { lemma_wrap_arith(c.entry[r], a as int, b as int); }
                (AvailableValue::Constant(a), AvailableValue::OriginalRegisterWithScalar(r, b)) => { lemma_wrap_arith(c.entry[r], a as int, b as int); }
                _ => {}
            }
        }
        ParserNode::IArith(x) => {
            let r1 = x.rs1.sdata();
            assert(inn.contains_key(r1));
            assert(holds(inn[r1], pre.regs[r1], pre, c));
            assert(post.regs[rd] == alu_int(op, pre.regs[r1], x.imm.sdata().sval() as int));
            match inn[r1] {
                AvailableValue::OriginalRegisterWithScalar(r, a) => { lemma_wrap_arith(c.entry[r], a as int, x.imm.sdata().sval() as int); }
                _ => {}
            }
        }
        _ => {}
    }
}

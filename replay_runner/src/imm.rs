//! Unit `imm` (property C17): native re-check of the literal readers of the real crate
//! (`Imm::from_str`, `CsrImm::from_str`, the `Imm`/`CsrImm` conversions, character literals)
//! against the reference reader used by the Kani harnesses, on the recorded input (if any) and on a
//! built-in grid of boundary literals in every notation.
use riscv_analysis::parser::{CsrImm, Imm, Range, Token, TokenType};
use std::panic::{catch_unwind, AssertUnwindSafe};
use std::str::FromStr;

const LO: i128 = -(1i128 << 31);
const HI: i128 = (1i128 << 32) - 1;

/// two's-complement reading of an accepted value (LO <= v <= HI)
fn wrap32(v: i128) -> i32 {
    if v >= (1i128 << 31) { (v - (1i128 << 32)) as i32 } else { v as i32 }
}

/// what sign * magnitude must be read as: Some(w) accepted with value w, None rejected
fn spec(neg: bool, magnitude: u128) -> Option<i32> {
    let m = magnitude.min(1u128 << 40) as i128;
    let v = if neg { -m } else { m };
    if LO <= v && v <= HI { Some(wrap32(v)) } else { None }
}

/// Reference reader:  ws* '-'? ( "zero" | ( "0x" | "0b" | "" ) '+'? digit+ ) ws*   (letters in either case).
pub fn ref_parse(s: &str) -> Option<i32> {
    let c: Vec<char> = s.trim_matches(char::is_whitespace).chars().collect();
    let (neg, c) = match c.split_first() { Some(('-', r)) => (true, r), _ => (false, &c[..]) };
    let lower = |x: &char| x.to_ascii_lowercase();
    if c.len() == 4 && c.iter().map(lower).eq("zero".chars()) {
        return Some(0);
    }
    let (radix, c) = if c.len() >= 2 && c[0] == '0' && lower(&c[1]) == 'x' { (16u32, &c[2..]) }
        else if c.len() >= 2 && c[0] == '0' && lower(&c[1]) == 'b' { (2u32, &c[2..]) }
        else { (10u32, c) };
    let c = match c.split_first() { Some(('+', r)) => r, _ => c };
    if c.is_empty() { return None; }
    let mut m: u128 = 0;
    for x in c {
        if !x.is_ascii() { return None; }
        let d = x.to_digit(radix)?; // ASCII digits / letters only
        m = (m * radix as u128 + d as u128).min(1u128 << 40);
    }
    spec(neg, m)
}

const CSR_TABLE: [(&str, u32); 17] = [
    ("ustatus", 0x000), ("uie", 0x004), ("utvec", 0x005), ("uscratch", 0x040), ("uepc", 0x041),
    ("ucause", 0x042), ("utval", 0x043), ("uip", 0x044), ("fflags", 0x001), ("frm", 0x002), ("fcsr", 0x003),
    ("cycle", 0xC00), ("time", 0xC01), ("instret", 0xC02), ("cycleh", 0xC80), ("timeh", 0xC81), ("instreth", 0xC82),
];

fn csr_ref(s: &str) -> Option<u32> {
    let l = s.to_ascii_lowercase();
    if let Some((_, n)) = CSR_TABLE.iter().find(|(name, _)| *name == l) { return Some(*n); }
    ref_parse(s).map(|v| u32::from_ne_bytes(v.to_ne_bytes()))
}

struct Tally { bad: u32, checked: u32, verbose: bool }

impl Tally {
    /// one literal through the real `Imm::from_str` and `CsrImm::from_str`
    fn literal(&mut self, s: &str) {
        self.checked += 1;
        let want = ref_parse(s);
        match catch_unwind(AssertUnwindSafe(|| Imm::from_str(s))) {
            Err(_) => { println!("Imm::from_str({s:?}) PANICKED; the literal denotes {want:?}"); self.bad += 1; }
            Ok(got) => {
                let got = got.ok().map(|i| i.value());
                if got != want {
                    println!("Imm::from_str({s:?}) = {got:?}; the literal denotes {want:?} (None = must be rejected): DISAGREES");
                    self.bad += 1;
                } else if self.verbose {
                    println!("Imm::from_str({s:?}) = {got:?}: agrees");
                }
            }
        }
        let want = csr_ref(s);
        match catch_unwind(AssertUnwindSafe(|| CsrImm::from_str(s))) {
            Err(_) => { println!("CsrImm::from_str({s:?}) PANICKED; the operand denotes {want:?}"); self.bad += 1; }
            Ok(got) => {
                let got = got.ok().map(|i| i.value());
                if got != want {
                    println!("CsrImm::from_str({s:?}) = {got:?}; the operand denotes {want:?}: DISAGREES");
                    self.bad += 1;
                }
            }
        }
    }

    /// sign * magnitude spelled in every notation; all spellings must read as the same, specified value
    fn number(&mut self, neg: bool, m: u128) {
        let sg = if neg { "-" } else { "" };
        let want = spec(neg, m);
        let spellings = [
            format!("{sg}{m}"), format!("{sg}0x{m:x}"), format!("{sg}0x{m:X}"), format!("{sg}0X{m:X}"),
            format!("{sg}0b{m:b}"), format!("{sg}0B{m:b}"), format!("{sg}000{m}"), format!("{sg}0x00{m:x}"),
            format!("{sg}0b0{m:b}"), format!("  {sg}{m} "), format!("\t{sg}0x{m:x}\n"), format!("{sg}+{m}"),
        ];
        for s in &spellings {
            if ref_parse(s) != want {
                println!("replay runner: reference reader and spec disagree on {s:?}");
                self.bad += 1;
            }
            self.literal(s);
        }
    }

    fn conversions(&mut self, x: i32, u: u32) {
        self.checked += 1;
        let c = CsrImm::from(Imm::new(x));
        if c.value().to_ne_bytes() != x.to_ne_bytes() { println!("CsrImm::from(Imm({x})) = {}: bit pattern changed", c.value()); self.bad += 1; }
        let i = Imm::from(CsrImm::new(u));
        if i.value().to_ne_bytes() != u.to_ne_bytes() { println!("Imm::from(CsrImm({u})) = {}: bit pattern changed", i.value()); self.bad += 1; }
        if Imm::from(CsrImm::from(Imm::new(x))) != Imm::new(x) { println!("Imm -> CsrImm -> Imm changes {x}"); self.bad += 1; }
        if CsrImm::from(Imm::from(CsrImm::new(u))) != CsrImm::new(u) { println!("CsrImm -> Imm -> CsrImm changes {u}"); self.bad += 1; }
    }

    fn char_literal(&mut self, c: char) {
        self.checked += 1;
        let t = Token::new_without_text(TokenType::Char(c), Range::default(), uuid::Uuid::nil());
        match catch_unwind(AssertUnwindSafe(|| Imm::try_from(t))) {
            Ok(Ok(i)) if i.value() >= 0 && i.value() as u32 == c as u32 => {}
            other => { println!("character literal {c:?} (U+{:04X}) read as {other:?}", c as u32); self.bad += 1; }
        }
    }
}

/// (prefix, lengths) of the strings a bounded harness `from_str.<family>.<len>` ranges over
fn family(id: &str) -> Option<(&'static str, Vec<usize>)> {
    let rest = id.strip_prefix("csr.from_str.").or_else(|| id.strip_prefix("from_str."))?;
    let (fam, len) = rest.rsplit_once('.')?;
    let prefix = match fam {
        "any" | "dec_pos" => "", "dec_neg" => "-", "hex" | "hex_pos" => "0x", "hex_neg" => "-0x",
        "bin_pos" => "0b", "bin_neg" => "-0b", _ => return None,
    };
    let ks = match len.strip_prefix("le") {
        Some(n) => (0..=n.parse::<usize>().ok()?).collect(),
        None => vec![len.parse::<usize>().ok()?],
    };
    Some((prefix, ks))
}

pub fn run(id: &str, v: &serde_json::Value) -> i32 {
    let g = |k: &str| crate::geti(v, k);
    let inp = v.get("inputs");
    let mut t = Tally { bad: 0, checked: 0, verbose: true };

    // ---- (i) the recorded input ----
    if let Some(s) = inp.and_then(|i| i.get("s")).and_then(|s| s.as_str()) {
        t.literal(s);
    }
    if let Some(bs) = inp.and_then(|i| i.get("bytes")).and_then(|b| b.as_array()) {
        let bytes: Vec<u8> = bs.iter().filter_map(|b| b.as_u64()).map(|b| b as u8).collect();
        match String::from_utf8(bytes) {
            Ok(s) => t.literal(&s),
            Err(_) => println!("inputs.bytes is not UTF-8: not a possible argument of from_str"),
        }
    }
    // symbolic characters d0, d1, ... of a bounded harness, behind the prefix that the obligation id names
    if g("d0").is_some() {
        if let Some((prefix, ks)) = family(id) {
            let d: Vec<u8> = (0..64).map_while(|i| g(&format!("d{i}"))).map(|b| b as u8).collect();
            for k in ks {
                if k <= d.len() {
                    if let Ok(tail) = std::str::from_utf8(&d[..k]) { t.literal(&format!("{prefix}{tail}")); }
                }
            }
        } else {
            println!("do not know which strings obligation {id:?} ranges over");
        }
    }
    // from_sign_and_magnitude is private: the same number through the public reader, in every notation
    if let (Some(sign), Some(m)) = (g("sign"), g("magnitude")) {
        if sign == 1 || sign == -1 { t.number(sign < 0, m as u32 as u128); }
    }
    // modular harnesses: ghost magnitude m of the digit string
    if let (Some(wf), Some(m)) = (inp.and_then(|i| i.get("well_formed")), inp.and_then(|i| i.get("m")).and_then(|m| m.as_u64())) {
        if wf.as_bool().unwrap_or(wf.as_u64() == Some(1)) {
            t.number(false, m as u128);
            t.number(true, m as u128);
        }
    }
    if let (Some(x), Some(u)) = (g("x"), g("u")) { t.conversions(x as i32, u as u32); }
    if let Some(c) = g("c").and_then(|c| char::from_u32(c as u32)) { t.char_literal(c); }

    // ---- (ii) the built-in grid ----
    t.verbose = false;
    let p31 = 1u128 << 31;
    let p32 = 1u128 << 32;
    for m in [0, 1, 2, 9, 10, 15, 16, 255, 2047, 2048, 4095, 4096, 0xFFFFF, 0x100000, 0x7FFF_FFFE, p31 - 1, p31, p31 + 1,
              0xDEAD_BEEF, p32 - 2, p32 - 1, p32, p32 + 1, 4_294_967_300, 9_999_999_999, 10_000_000_000, p32 * 16, p32 * 16 + 1,
              (1u128 << 33) - 1, 1u128 << 33, u64::MAX as u128, u64::MAX as u128 + 1, u128::MAX >> 1] {
        t.number(false, m);
        t.number(true, m);
    }
    for s in ["zero", "ZERO", "Zero", "-zero", " zero ", "zer", "zeroo", "0zero", "+zero", "zero0",
              "", " ", "-", "+", "--1", "-+1", "+-1", "++1", "- 1", "1 2", "1 2 3", "1_000", "1,000", "1.0", "1e3", "0x", "0b", "0X", "0B", "-0x", "-0b",
              "0x-", "0b-", "0x-1", "0b-1", "0x+1", "0b+1", "-0x+1", "0x +1", "0x 1", "0b2", "0b12", "0xg", "0xG1", "12a", "a", "ff", "0o17", "017", "0d10",
              "x10", "b10", "00x10", "0x0x1", "0b0b1", "0x0b1", "0b0x1", "-0x-1", "--0x1", "+0x1", "+0b1", "+1", "+0", "-0", "-0x0", "-0b0",
              "-0x80000000", "-0x80000001", "-0xFFFFFFFF", "-0x100000000", "0xFFFFFFFF", "0x100000000", "0xFFFFFFFFF", "0x0FFFFFFFF",
              "-2147483648", "-2147483649", "2147483648", "4294967295", "4294967296", "-4294967295", "-4294967296", "99999999999999999999999999",
              "0b11111111111111111111111111111111", "0b100000000000000000000000000000000", "-0b10000000000000000000000000000000",
              "-0b10000000000000000000000000000001", "0b011111111111111111111111111111111",
              "1\u{a0}", "\u{2003}7", "\u{661}", "0x\u{ff11}", "1\0", "\u{212a}", "0\u{58}1", "٣", "１２"] {
        t.literal(s);
    }
    for x in [0, 1, -1, i32::MIN, i32::MAX, 0x7FF, -0x800, 0x1234_5678] { t.conversions(x, x as u32 ^ 0x8000_0000); t.conversions(x, x as u32); }
    for c in ['\0', 'a', 'Z', '0', '\n', '\'', '\u{7f}', '\u{80}', '\u{3bb}', '\u{d7ff}', '\u{e000}', '\u{ffff}', '\u{10000}', '\u{10ffff}'] { t.char_literal(c); }
    for (name, n) in CSR_TABLE {
        t.literal(name);
        t.literal(&name.to_ascii_uppercase());
        t.literal(&format!("{n:#x}"));
    }
    // the ASCII model of str::to_lowercase used by the bounded harnesses (every ASCII string of length <= 2)
    for a in 0..128u8 {
        for b in 0..128u8 {
            for s in [String::from_utf8(vec![a]).unwrap(), String::from_utf8(vec![a, b]).unwrap()] {
                t.checked += 1;
                if s.to_lowercase() != s.to_ascii_lowercase() { println!("str::to_lowercase differs from the ASCII model on {s:?}"); t.bad += 1; }
            }
        }
    }
    if t.bad == 0 {
        println!("imm/{id}: the real code agrees with the reference reader on the recorded input and on {} grid checks", t.checked);
        0
    } else {
        println!("imm/{id}: {} disagreement(s) with the reference reader", t.bad);
        1
    }
}

# unit `symm_n` — bounded native stand-in for the whole-pipeline half of C14 (the lint passes over the Cfg: Rc graph, HashMap/HashSet,
# trait objects: out of reach of Verus and Kani). Public API only (RVParser::run). Never counted as proved.
UNIT = {
    'unit': 'symm_n', 'backend': 'native',
    'functions': [{'file': 'riscv_analysis/src/lints/callee_saved_garbage_read.rs', 'item': 'impl LintPass for CalleeSavedGarbageReadCheck :: fn run'},
                  {'file': 'riscv_analysis/src/lints/lost_callee_saved_register.rs', 'item': 'impl LintPass for LostCalleeSavedRegisterCheck :: fn run'},
                  {'file': 'riscv_analysis/src/lints/callee_saved_register.rs', 'item': 'impl LintPass for CalleeSavedRegisterCheck :: fn run'},
                  {'file': 'riscv_analysis/src/lints/dead_value.rs', 'item': 'impl LintPass for DeadValueCheck :: fn run'},
                  {'file': 'riscv_analysis/src/lints/garbage_input_value.rs', 'item': 'impl LintPass for GarbageInputValueCheck :: fn run'}],
    'obligations': [
        {'id': 'symm_n.twins', 'recipe': ['symm-search'], 'props': ['C14'], 'kind': 'bounded', 'timeout': 900,
         'bound': '2208 program/renaming pairs: 23 programs (clean and violating: lost / overwritten saved registers, reads of unset saved registers, dead and '
                  'unset temporaries, temporaries across calls, fp and x-number spellings, two clobbered temporaries read by one instruction, a frame addressed through the frame pointer, garbage only in low registers at program entry, two labels each defined twice, linking through a temporary, loads and stores by label, a function with two labels called through each, every saved register and every temporary mentioned at least once) x '
                  'every transposition and two longer permutations of t0-t6 and of s0-s11 (ABI names and x numbers renamed together), x five injective renamings of all labels (suffix, numbered, upper case, register-like names in another letter case, reversed alphabetical order)',
         'clause': 'the twin program gets exactly the diagnostics of the original: same title, same line, same first and last operand token, description equal '
                   'up to the renaming',
         'tier': 'quick'},
    ],
}

# unit `rules` — rewrite rules of the value analysis (analysis/available.rs) and the map they work on (cfg/available_value_map.rs),
# Verus, unbounded. Each rule is proved to PRESERVE SOUNDNESS against a machine-state meaning of the facts
# (contracts/verus/rules_spec.rs): for every state and activation in which the facts it is given are true, the facts it leaves are true.
import os, sys, importlib.util
sys.path.insert(0, os.path.dirname(os.path.abspath(__file__)))
from lib import nodetypes, mk
_spec = importlib.util.spec_from_file_location('unit_nodes_for_rules', os.path.join(os.path.dirname(os.path.abspath(__file__)), 'nodes.py'))
_nodes = importlib.util.module_from_spec(_spec)
_spec.loader.exec_module(_nodes)

P = 'riscv_analysis/src/parser/'
AV = 'riscv_analysis/src/analysis/available.rs'
AVM = 'riscv_analysis/src/cfg/available_value_map.rs'
ML = 'riscv_analysis/src/analysis/memory_location.rs'
GEN = "impl<T: PartialEq + Eq + Hash> AvailableValueMap<T>"
KM = 'vstd::std_specs::hash::obeys_key_model::<T>()'

# node types and the accessors already under contract in unit `nodes` (re-verified here: a Verus file is self-contained)
KEEP_FNS = ('With::get', 'With::get_cloned', 'With::eq', 'Imm::value', 'writes_to', 'stores_to_memory', 'reads_from_memory')
items = [i for i in _nodes.items if 'fn' not in i or i['fn'] in KEEP_FNS]
items += [
    {'file': P + 'register_register_properties.rs', 'item': 'impl RegisterProperties for Register :: fn is_const_zero', 'wrap': 'impl Register', 'fn': 'is_const_zero',
     'attrs': 'drop', 'ret': 'r', 'ensures': [('post', 'r == (*self == Register::X0)')]},
    {'file': P + 'register_register_properties.rs', 'item': 'impl RegisterProperties for Register :: fn is_stack_pointer', 'wrap': 'impl Register', 'fn': 'is_stack_pointer',
     'attrs': 'drop', 'ret': 'r', 'ensures': [('post', 'r == (*self == Register::X2)')]},
    {'file': AV, 'item': 'enum AvailableValue', 'attrs': 'drop', 'rewrites': [(r'[ \t]*#\[serde\([^\n]*\)\]\n', '')]},       # Clone / PartialEq modelled in rules_spec.rs
    {'file': ML, 'item': 'enum MemoryLocation', 'attrs': 'drop'},       # Clone / PartialEq / Hash modelled in rules_spec.rs
    {'file': AVM, 'item': 'struct AvailableValueMap', 'attrs': 'drop'},
    {'file': AVM, 'item': 'impl AvailableValueMap<T> :: fn get', 'wrap': GEN, 'fn': 'Map::get', 'attrs': 'drop', 'ret': 'r',
     'requires': [('key', KM)],
     'ensures': [('view', 'match r { Some(v) => self@.contains_key(*item) && *v == self@[*item], None => !self@.contains_key(*item) }')]},
    {'file': AVM, 'item': 'impl AvailableValueMap<T> :: fn insert', 'wrap': GEN, 'fn': 'Map::insert', 'attrs': 'drop',
     'requires': [('key', KM)],
     'ensures': [('view', 'final(self)@ == old(self)@.insert(key, value)')]},
    {'file': AVM, 'item': "impl IntoIterator for &'a AvailableValueMap<T> :: fn into_iter",
     'wrap': "impl<'a, T: PartialEq + Eq + Hash> IntoIterator for &'a AvailableValueMap<T>", 'fn': 'Map::into_iter', 'attrs': 'drop', 'ret': 'r',
     'wrap_lines': ["type Item = (&'a T, &'a AvailableValue);", "type IntoIter = std::collections::hash_map::Iter<'a, T, AvailableValue>;"],
     'ensures': [('view', 'r.obeys_prophetic_iter_laws() && (%s ==> r.decrease() is Some && r.remaining().no_duplicates() && r.remaining().len() == self@.len() '
                          '&& (forall|k: T| self@.contains_key(k) ==> exists|i: int| 0 <= i < r.remaining().len() && *(#[trigger] r.remaining()[i]).0 == k && *r.remaining()[i].1 == self@[k]) '
                          '&& (forall|i: int| 0 <= i < r.remaining().len() ==> self@.contains_key(*(#[trigger] r.remaining()[i]).0) && self@[*r.remaining()[i].0] == *r.remaining()[i].1))' % KM)]},
    {'file': AVM, 'item': 'impl AvailableValueMap<Register> :: fn stack_offset', 'wrap': 'impl AvailableValueMap<Register>', 'fn': 'Map::stack_offset', 'attrs': 'drop', 'ret': 'r',
     'body_start': ['proof { axiom_register_key_model(); }'],
     'ensures': [('post', 'match r { Some(o) => self@.contains_key(Register::X2) && self@[Register::X2] == AvailableValue::OriginalRegisterWithScalar(Register::X2, o), '
                          'None => !(self@.contains_key(Register::X2) && (self@[Register::X2] matches AvailableValue::OriginalRegisterWithScalar(q, _) && q == Register::X2)) }'),
                 ('sound', 'forall|s: St, c: Ctx| wf_state(s, c) && sound_regs(self@, s, c, true) && r is Some ==> s.regs[Register::X2] == wrap32(c.entry[Register::X2] + r->Some_0)')]},
    {'file': AVM, 'item': 'impl AvailableValueMap<Register> :: fn is_original_value', 'wrap': 'impl AvailableValueMap<Register>', 'fn': 'Map::is_original_value', 'attrs': 'drop', 'ret': 'r',
     'body_start': ['proof { axiom_register_key_model(); }'],
     'ensures': [('post', 'r == (self@.contains_key(reg) && self@[reg] == AvailableValue::OriginalRegisterWithScalar(reg, 0))'),
                 ('sound', 'forall|s: St, c: Ctx| wf_state(s, c) && sound_regs(self@, s, c, true) && r ==> s.regs[reg] == c.entry[reg]')]},
    {'file': AV, 'item': 'fn rule_zero_to_const', 'fn': 'rule_zero_to_const', 'attrs': 'drop',
     'body_start': ['proof { axiom_register_key_model(); axiom_memloc_key_model(); }', 'let ghost regs0 = available_out@;', 'let ghost mem0 = memory_out@;'],
     'loops': {0: {'invariant': [('key', 'vstd::std_specs::hash::obeys_key_model::<Register>() && vstd::std_specs::hash::obeys_key_model::<MemoryLocation>()'),
                                 ('sound', 'forall|s: St, c: Ctx| wf_state(s, c) && sound_regs(regs0, s, c, false) ==> sound_regs(available_out@, s, c, false)'),
                                 ('dom', 'available_out@.dom() =~= regs0.dom() && memory_out@ == mem0')]},
               1: {'invariant': [('key', 'vstd::std_specs::hash::obeys_key_model::<Register>() && vstd::std_specs::hash::obeys_key_model::<MemoryLocation>()'),
                                 ('sound', 'forall|s: St, c: Ctx| wf_state(s, c) && sound_mem(mem0, s, c) ==> sound_mem(memory_out@, s, c)'),
                                 ('dom', 'memory_out@.dom() =~= mem0.dom()'),
                                 ('regs', '(forall|s: St, c: Ctx| wf_state(s, c) && sound_regs(regs0, s, c, false) ==> sound_regs(available_out@, s, c, false)) && available_out@.dom() =~= regs0.dom()')]}},
     'ensures': [('regs_sound', 'forall|s: St, c: Ctx| wf_state(s, c) && sound_regs(old(available_out)@, s, c, false) ==> sound_regs(final(available_out)@, s, c, false)'),
                 ('mem_sound', 'forall|s: St, c: Ctx| wf_state(s, c) && sound_mem(old(memory_out)@, s, c) ==> sound_mem(final(memory_out)@, s, c)'),
                 ('frame', 'final(available_out)@.dom() =~= old(available_out)@.dom() && final(memory_out)@.dom() =~= old(memory_out)@.dom()')]},
    {'file': AV, 'item': 'fn rule_expand_address_for_load', 'fn': 'rule_expand_address_for_load', 'attrs': 'drop',
     'body_start': ['proof { axiom_register_key_model(); }'],
     'anchors': [{'at': 'available_out.insert(', 'where': 'before', 'nth': 0,
                  'lines': ['proof {   // 32-bit address arithmetic: (entry + off) + imm == entry + (off + imm), all wrapped',
                            '    let o = *off as int; let i = load.imm.sdata().sval() as int;',
                            '    lemma_wrap_small(o + i);',
                            '    assert forall|e: int| wrap32(#[trigger] wrap32(e + o) + i) == wrap32(e + wrap32(o + i)) by { lemma_wrap_arith(e, o, i); }',
                            '}']}],
     'ensures': [('sound', 'forall|pre: St, post: St, c: Ctx| wf_state(pre, c) && wf_state(post, c) && lw_premise(*node, pre, post) '
                           '&& sound_regs(available_in@, pre, c, true) && sound_regs(old(available_out)@, post, c, false) '
                           '==> sound_regs(final(available_out)@, post, c, false)'),
                 ('frame', 'forall|r: Register| arch_writes(*node) != Some(r) ==> (final(available_out)@.contains_key(r) == old(available_out)@.contains_key(r) '
                           '&& (old(available_out)@.contains_key(r) ==> final(available_out)@[r] == old(available_out)@[r]))')]},
    {'file': AV, 'item': 'fn rule_value_from_stack', 'fn': 'rule_value_from_stack', 'attrs': 'drop',
     # R11: the generic parameter is instantiated with the one type the (unverified) caller passes: `&node.node()` is a ParserNode
     'requires_text': ['rule_value_from_stack(&node.node(), &mut out_reg_n, &node.memory_values_in());'],
     'rewrites': [('lit', 'node: &impl InstructionProperties,', 'node: &ParserNode,', 1)],
     'body_start': ['proof { axiom_register_key_model(); axiom_memloc_key_model(); }'],
     'ensures': [('sound', 'forall|pre: St, post: St, c: Ctx| wf_state(pre, c) && wf_state(post, c) && post.mem == pre.mem && post.csr == pre.csr '
                           '&& !csr_fact_on_written(*node, old(available_out)@) '
                           '&& sound_mem(memory_in@, pre, c) && sound_regs(old(available_out)@, post, c, false) '
                           '==> sound_regs(final(available_out)@, post, c, false)'),
                 ('frame', 'forall|r: Register| arch_writes(*node) != Some(r) ==> (final(available_out)@.contains_key(r) == old(available_out)@.contains_key(r) '
                           '&& (old(available_out)@.contains_key(r) ==> final(available_out)@[r] == old(available_out)@[r]))')]},
    {'file': 'riscv_analysis/src/cfg/ops.rs', 'item': 'enum MathOp', 'attrs': 'drop'},
    {'file': 'riscv_analysis/src/cfg/ops.rs', 'item': 'impl Inst :: fn math_op', 'wrap': 'impl Inst', 'fn': 'math_op', 'attrs': 'drop', 'ret': 'r',
     'ensures': [('table', 'r == isa_alu_of(self)')]},
    {'file': 'riscv_analysis/src/cfg/ops.rs', 'item': 'impl Inst :: fn scalar_op', 'wrap': 'impl Inst', 'fn': 'scalar_op', 'attrs': 'drop', 'ret': 'r',
     'ensures': [('table', 'r matches Some(op) ==> (op is Add || op is Sub) && isa_alu_of(self) == Some(op)')]},
    {'file': AV, 'item': 'fn rule_perform_math_ops', 'fn': 'rule_perform_math_ops', 'attrs': 'drop',
     # R12: closures get an explicit parameter type and a postcondition that Verus checks against the closure body; a tuple-variant
     # constructor used as a function value is eta-expanded (Verus has no function values for constructors). The executed expressions are unchanged.
     'rewrites': [('lit', '.map(|op| op.operate(x, y))', '.map(|op: MathOp| -> (z: i32) ensures z as int == alu_int(op, x as int, y as int) { op.operate(x, y) })', 2),
                  ('lit', '.map(AvailableValue::Constant)', '.map(|z: i32| -> (v: AvailableValue) ensures v == AvailableValue::Constant(z) { AvailableValue::Constant(z) })', 1),
                  ('lit', '.map(|z| AvailableValue::OriginalRegisterWithScalar(new_reg, z))',
                   '.map(|z: i32| -> (v: AvailableValue) ensures v == AvailableValue::OriginalRegisterWithScalar(new_reg, z) { AvailableValue::OriginalRegisterWithScalar(new_reg, z) })', 1)],
     'body_start': ['proof { axiom_register_key_model(); }', 'let ghost out0 = available_out@;'],
     'anchors': [{'at': 'if let Some(val) = result {', 'where': 'before', 'label': 'result',
                  'lines': ['assert(math_result_spec(*node, available_in@, result));']},
                 {'at': 'available_out.insert(reg.get_cloned(), val);', 'where': 'after',
                  'lines': ['proof {',
                            '    assert forall|pre: St, post: St, c: Ctx| wf_state(pre, c) && wf_state(post, c) && alu_premise(*node, pre, post)',
                            '        && sound_regs(available_in@, pre, c, true) && sound_regs(out0, post, c, false)',
                            '        implies sound_regs(available_out@, post, c, false) by {',
                            '        if reg.sdata() != Register::X0 { lemma_math_sound(*node, available_in@, val, reg.sdata(), pre, post, c); }',
                            '    }',
                            '}']}],
     'ensures': [('sound', 'forall|pre: St, post: St, c: Ctx| wf_state(pre, c) && wf_state(post, c) && alu_premise(*node, pre, post) '
                           '&& sound_regs(available_in@, pre, c, true) && sound_regs(old(available_out)@, post, c, false) '
                           '==> sound_regs(final(available_out)@, post, c, false)'),
                 ('frame', 'forall|r: Register| arch_writes(*node) != Some(r) ==> (final(available_out)@.contains_key(r) == old(available_out)@.contains_key(r) '
                           '&& (old(available_out)@.contains_key(r) ==> final(available_out)@[r] == old(available_out)@[r]))')]},
    {'file': AV, 'item': 'fn rule_push_value_to_csr_memory', 'fn': 'rule_push_value_to_csr_memory', 'attrs': 'drop',
     'requires_text': ['rule_push_value_to_csr_memory(&node.node(), &mut out_memory_n, &out_reg_n);'],
     'rewrites': [('lit', 'node: &impl InstructionProperties,', 'node: &ParserNode,', 1)],   # R11
     'body_start': ['proof { axiom_register_key_model(); axiom_memloc_key_model(); }'],
     'ensures': [('csr_free', 'no_csr_fact(available_in@) ==> final(memory_out)@ == old(memory_out)@'),
                 ('frame', 'forall|l: MemoryLocation| !(l is CsrRegisterValueOffset) ==> (final(memory_out)@.contains_key(l) == old(memory_out)@.contains_key(l) '
                           '&& (old(memory_out)@.contains_key(l) ==> final(memory_out)@[l] == old(memory_out)@[l]))')]},
    {'file': AV, 'item': 'fn rule_pull_value_from_csr_memory', 'fn': 'rule_pull_value_from_csr_memory', 'attrs': 'drop',
     'requires_text': ['rule_pull_value_from_csr_memory('],
     'rewrites': [('lit', 'node: &impl InstructionProperties,', 'node: &ParserNode,', 1)],   # R11
     'body_start': ['proof { axiom_register_key_model(); axiom_memloc_key_model(); }'],
     'ensures': [('csr_free', 'no_csr_fact(old(available_out)@) ==> final(available_out)@ == old(available_out)@'),
                 ('frame', 'forall|r: Register| arch_writes(*node) != Some(r) ==> (final(available_out)@.contains_key(r) == old(available_out)@.contains_key(r) '
                           '&& (old(available_out)@.contains_key(r) ==> final(available_out)@[r] == old(available_out)@[r]))')]},
]

UNIT = {
    'unit': 'rules', 'backend': 'verus', 'rlimit': 200,
    'uses': ['use vstd::std_specs::cmp::{PartialEqSpec, PartialEqSpecImpl};', 'use std::collections::HashSet;', 'use std::collections::HashMap;',
             'use std::hash::Hash;', 'use vstd::std_specs::iter::IteratorSpec;'],
    'prelude': ['verus/nodes_spec.rs', 'verus/rules_spec.rs'],
    'prelude_inline': [_nodes.STRUCT_EQ],
    'items': items, 'functions': [], 'obligations': [],
}
PROPS = {'rule_zero_to_const': ['C01'], 'rule_push_value_to_csr_memory': ['C01'], 'rule_pull_value_from_csr_memory': ['C01'], 'stores_to_memory': ['C01'], 'reads_from_memory': ['C01'], 'rule_perform_math_ops': ['C01'], 'math_op': ['C01', 'C08'], 'scalar_op': ['C01', 'C08'], 'rule_expand_address_for_load': ['C01'], 'rule_value_from_stack': ['C01'], 'Map::get': ['C01'], 'Map::insert': ['C01'], 'Map::into_iter': ['C01'], 'Map::stack_offset': ['C01'], 'Map::is_original_value': ['C01'],
         'is_const_zero': ['C01'], 'is_stack_pointer': ['C01'], 'writes_to': ['C01'], 'With::get': ['C01'], 'With::get_cloned': ['C01'], 'With::eq': ['C01'], 'Imm::value': ['C01']}
TEXTS = {
    ('rule_zero_to_const', 'regs_sound'): 'for every machine state and activation: if the register facts handed in are true, the register facts left behind are true (x0 + i is only turned into the constant i where that fact survived the instruction)',
    ('rule_zero_to_const', 'mem_sound'): 'for every machine state and activation: if the stack/CSR-slot facts handed in are true, the ones left behind are true',
    ('rule_zero_to_const', 'frame'): 'no fact is added or removed, only rewritten',
    ('Map::stack_offset', 'sound'): 'when it answers Some(o) and the facts are true, the machine\'s sp is its entry value plus o',
    ('Map::is_original_value', 'sound'): 'when it answers true and the facts are true, the register holds its value at entry',
    ('rule_expand_address_for_load', 'sound'): 'for every pair of machine states related by the execution of the instruction (a full-word load: rd <- mem[rs1 + imm]) and every activation: if the facts before are true before and the facts so far are true after, the facts left behind are true after (the loaded register is described as the memory word at entry-register + offset, or at label + offset)',
    ('rule_value_from_stack', 'sound'): 'for every pair of machine states with the same memory and every activation: if the slot facts are true before and the register facts so far are true after, the facts left behind are true after (a register loaded from a known stack slot gets the slot\'s fact); CSR facts are outside this contract',
    ('rule_perform_math_ops', 'sound'): 'for every pair of machine states related by the execution of the R-type / I-type instruction (rd <- the ISA\'s operation for the mnemonic on rs1 and rs2 / the immediate) and every activation: if the facts before are true before and the facts so far are true after, the facts left behind are true after (constant folding; entry-value + constant under add / sub with the constant on the right, under add with it on the left)',
    ('rule_perform_math_ops', 'result'): 'the value computed for rd is: the folded constant when both operand facts are constants; entry-value + folded constant when the left operand is entry-relative, the right a constant and the operation add or sub; the same with the operands swapped for add only; nothing otherwise',
    ('math_op', 'table'): 'the folding operation chosen for a mnemonic is the one the ISA manual assigns to it (all 110 mnemonics, both directions)',
    ('scalar_op', 'table'): 'a scalar operation is add or sub and is the operation the ISA manual assigns to the mnemonic',
    'csr_free': 'when no register fact is a CSR fact - every program of the property\'s subset, which has no CSR instructions - the rule changes nothing',
    ('rule_push_value_to_csr_memory', 'frame'): 'only facts about memory addressed through a CSR value are touched',
    'frame': 'only the fact of the written register is touched',
    'view': 'behaves as the same operation on the abstract map register/location -> fact',
    'post': 'returns exactly what its specification says',
}
mk.make(UNIT, PROPS, TEXTS, search=['values-search'])

// ---- woven by /verif (unit `inst_k`): the mnemonic reported for an operation (From<&XType> for Inst, ParserNode::inst) ----
#[cfg(kani)]
mod verif_kani_inst {
    use super::*;
    use crate::parser::{Arith, Basic, Branch, Csr, CsrI, CsrImm, IArith, Imm, JumpLink, JumpLinkR, LabelString, Load, LoadAddr,
                        ParserNode, RawToken, Register, Store, Token, With};
    use uuid::Uuid;

    fn w<T>(x: T) -> With<T> { With::new(x, Token::default()) }

    /// the operation a mnemonic stands for, by the mnemonic -> format table (`Type::from`, itself proved against the manual
    /// in unit decode_q): the mnemonic reported for operation t must be one that means t
    macro_rules! back {
        ($i:expr, $($v:ident)|+, $t:expr) => { match Type::from(&$i) { $(Type::$v(x))|+ => assert!(x == $t, "the mnemonic reported for an operation means another operation"), _ => panic!("the mnemonic reported for an operation has another format") } };
    }

    #[kani::proof]
    fn mnemonic_of_arith() { let t: ArithType = kani::any(); back!(Inst::from(&t), Arith, t); }
    #[kani::proof]
    fn mnemonic_of_iarith() { let t: IArithType = kani::any(); back!(Inst::from(&t), IArith | UpperArith, t); }
    #[kani::proof]
    fn mnemonic_of_load() { let t: LoadType = kani::any(); back!(Inst::from(&t), Load, t); }
    #[kani::proof]
    fn mnemonic_of_store() { let t: StoreType = kani::any(); back!(Inst::from(&t), Store, t); }
    #[kani::proof]
    fn mnemonic_of_branch() { let t: BranchType = kani::any(); back!(Inst::from(&t), Branch, t); }
    #[kani::proof]
    fn mnemonic_of_csr() { let t: CsrType = kani::any(); back!(Inst::from(&t), Csr, t); }
    #[kani::proof]
    fn mnemonic_of_csri() { let t: CsrIType = kani::any(); back!(Inst::from(&t), CsrI, t); }
    #[kani::proof]
    fn mnemonic_of_basic() { let t: BasicType = kani::any(); back!(Inst::from(&t), Basic, t); }
    #[kani::proof]
    fn mnemonic_of_jumps() {
        back!(Inst::from(&JumpLinkType::Jal), JumpLink, JumpLinkType::Jal);
        back!(Inst::from(&JumpLinkRType::Jalr), JumpLinkR, JumpLinkRType::Jalr);
    }

    /// ParserNode::inst on every kind of instruction node: the mnemonic it reports means the node's own operation
    #[kani::proof]
    fn node_inst_arith() {
        let (t, r): (ArithType, Register) = (kani::any(), kani::any());
        let n = ParserNode::Arith(Arith { inst: w(t), rd: w(r), rs1: w(r), rs2: w(r), key: Uuid::nil(), token: RawToken::default() });
        back!(n.inst(), Arith, t);
        std::mem::forget(n);   // the drop glue of ParserNode (all variants, Vec fields) is not what is checked here
    }
    #[kani::proof]
    fn node_inst_iarith() {
        let (t, r): (IArithType, Register) = (kani::any(), kani::any());
        let n = ParserNode::IArith(IArith { inst: w(t), rd: w(r), rs1: w(r), imm: w(Imm::new(kani::any())), key: Uuid::nil(), token: RawToken::default() });
        back!(n.inst(), IArith | UpperArith, t);
        std::mem::forget(n);   // the drop glue of ParserNode (all variants, Vec fields) is not what is checked here
    }
    #[kani::proof]
    fn node_inst_load_store() {
        let (l, s, r): (LoadType, StoreType, Register) = (kani::any(), kani::any(), kani::any());
        let n = ParserNode::Load(Load { inst: w(l), rd: w(r), rs1: w(r), imm: w(Imm::new(kani::any())), key: Uuid::nil(), token: RawToken::default() });
        back!(n.inst(), Load, l);
        std::mem::forget(n);   // the drop glue of ParserNode (all variants, Vec fields) is not what is checked here
        let n = ParserNode::Store(Store { inst: w(s), rs1: w(r), rs2: w(r), imm: w(Imm::new(kani::any())), key: Uuid::nil(), token: RawToken::default() });
        back!(n.inst(), Store, s);
        std::mem::forget(n);   // the drop glue of ParserNode (all variants, Vec fields) is not what is checked here
    }
    #[kani::proof]
    fn node_inst_branch() {
        let (b, r): (BranchType, Register) = (kani::any(), kani::any());
        let n = ParserNode::Branch(Branch { inst: w(b), rs1: w(r), rs2: w(r), name: w(LabelString::new("")), key: Uuid::nil(), token: RawToken::default() });
        back!(n.inst(), Branch, b);
        std::mem::forget(n);   // the drop glue of ParserNode (all variants, Vec fields) is not what is checked here
    }
    #[kani::proof]
    fn node_inst_jal() {
        let r: Register = kani::any();
        let n = ParserNode::JumpLink(JumpLink { inst: w(JumpLinkType::Jal), rd: w(r), name: w(LabelString::new("")), key: Uuid::nil(), token: RawToken::default() });
        back!(n.inst(), JumpLink, JumpLinkType::Jal);
        std::mem::forget(n);   // the drop glue of ParserNode (all variants, Vec fields) is not what is checked here
    }
    #[kani::proof]
    fn node_inst_jalr() {
        let r: Register = kani::any();
        let n = ParserNode::JumpLinkR(JumpLinkR { inst: w(JumpLinkRType::Jalr), rd: w(r), rs1: w(r), imm: w(Imm::new(kani::any())), key: Uuid::nil(), token: RawToken::default() });
        back!(n.inst(), JumpLinkR, JumpLinkRType::Jalr);
        std::mem::forget(n);   // the drop glue of ParserNode (all variants, Vec fields) is not what is checked here
    }
    #[kani::proof]
    fn node_inst_system() {
        let (c, ci, bt, r): (CsrType, CsrIType, BasicType, Register) = (kani::any(), kani::any(), kani::any(), kani::any());
        let n = ParserNode::Csr(Csr { inst: w(c), rd: w(r), csr: w(CsrImm::new(kani::any())), rs1: w(r), key: Uuid::nil(), token: RawToken::default() });
        back!(n.inst(), Csr, c);
        std::mem::forget(n);   // the drop glue of ParserNode (all variants, Vec fields) is not what is checked here
        let n = ParserNode::CsrI(CsrI { inst: w(ci), rd: w(r), csr: w(CsrImm::new(kani::any())), imm: w(Imm::new(kani::any())), key: Uuid::nil(), token: RawToken::default() });
        back!(n.inst(), CsrI, ci);
        std::mem::forget(n);   // the drop glue of ParserNode (all variants, Vec fields) is not what is checked here
        let n = ParserNode::Basic(Basic { inst: w(bt), key: Uuid::nil(), token: RawToken::default() });
        back!(n.inst(), Basic, bt);
        std::mem::forget(n);   // the drop glue of ParserNode (all variants, Vec fields) is not what is checked here
        let n = ParserNode::LoadAddr(LoadAddr { inst: w(PseudoType::La), rd: w(r), name: w(LabelString::new("")), key: Uuid::nil(), token: RawToken::default() });
        assert!(n.inst() == Inst::La, "la is reported under another mnemonic");
        std::mem::forget(n);
    }
}

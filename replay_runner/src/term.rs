//! Bounded native check of the whole-pipeline half of C06 (public API only): linting finishes, without a panic, on a family of
//! small programs built to stress the fixed-point passes (functions that share their tails and returns in every combination
//! and call order, recursion, loops around calls).
use riscv_analysis::parser::{EmptyFileReader, RVParser};
use std::panic::{catch_unwind, AssertUnwindSafe};
use std::sync::mpsc;
use std::time::Duration;

fn lint_finishes(src: &str, secs: u64) -> Result<(), String> {
    let (tx, rx) = mpsc::channel();
    let text = src.to_string();
    std::thread::spawn(move || {
        let r = catch_unwind(AssertUnwindSafe(|| {
            let mut parser = RVParser::new(EmptyFileReader::new(&text));
            parser.run(EmptyFileReader::get_file_path()).len()
        }));
        let _ = tx.send(r.is_ok());
    });
    match rx.recv_timeout(Duration::from_secs(secs)) {
        Ok(true) => Ok(()),
        Ok(false) => Err(format!("linting panicked on {src:?}")),
        Err(_) => Err(format!("linting did not finish within {secs} s on {src:?}")),
    }
}

const BODIES: [&str; 5] = ["    ret", "    addi a1, a0, 0\n    j shared", "    beqz a0, shared\n    ret", "    beqz a0, shared\n    addi a0, a0, -1\n    j shared",
                           "    addi a0, a0, 1"];   // the last one falls through into the next function

fn permutations(n: usize) -> Vec<Vec<usize>> {
    if n == 1 { return vec![vec![0]]; }
    let mut out = Vec::new();
    for p in permutations(n - 1) { for k in 0..n { let mut q = p.clone(); q.insert(k, n - 1); out.push(q); } }
    out
}

const FIXED: [&str; 9] = [
    ".macro inc\n    addi a0, a0, 1\n", ".macro", "main:\n    li a7, 10\n    ecall\n.macro m\n    addi a0, a0, 1\n.end_macro\n",
    "main:\n    li a0, 3\n    jal f\n    li a7, 10\n    ecall\nf:\n    beqz a0, done\n    addi sp, sp, -4\n    sw ra, 0(sp)\n    addi a0, a0, -1\n    jal f\n    lw ra, 0(sp)\n    addi sp, sp, 4\ndone:\n    ret\n",
    "main:\n    jal f\n    li a7, 10\n    ecall\nf:\n    addi sp, sp, -4\n    sw ra, 0(sp)\n    jal g\n    lw ra, 0(sp)\n    addi sp, sp, 4\n    ret\ng:\n    addi sp, sp, -4\n    sw ra, 0(sp)\n    jal f\n    lw ra, 0(sp)\n    addi sp, sp, 4\n    ret\n",
    "main:\n    li s0, 4\nloop:\n    mv a0, s0\n    jal f\n    addi s0, s0, -1\n    bnez s0, loop\n    li a7, 10\n    ecall\nf:\n    beqz a0, z\n    li a0, 1\n    ret\nz:\n    li a0, 2\n    ret\n",
    "main:\n    jal f\n    jal f\n    jal g\n    li a7, 10\n    ecall\nf:\ng:\n    addi a0, a0, 1\n    ret\n",
    "main:\n    jal f\n    li a7, 10\n    ecall\nf:\nspin:\n    bnez a0, spin\n    ret\n",
    "main:\n    la t0, handler\n    csrrw zero, 5, t0\n    jal f\n    li a7, 10\n    ecall\nf:\n    ret\nhandler:\n    addi t1, t1, 1\n    uret\n",
];

pub fn search(v: &serde_json::Value) -> i32 {
    if let Some(src) = v.get("inputs").and_then(|i| i.get("program")).and_then(|s| s.as_str()) {
        for _ in 0..8 { if let Err(w) = lint_finishes(src, 10) { println!("witness: {w}"); return 1; } }
        println!("linting finishes on {src:?} (8 runs)");
        return 0;
    }
    let mut n = 0u64;
    let mut run = |p: &str| -> bool {
        // the passes iterate hash sets: the same program is analysed several times
        for _ in 0..4 { n += 1; if let Err(w) = lint_finishes(p, 10) { println!("witness: {w}"); return true; } }
        false
    };
    for p in FIXED { if run(p) { return 1; } }
    for k in 2..=3usize {
        let mut idx = vec![0usize; k];
        loop {
            for order in permutations(k) {
                let mut p = String::from("main:\n");
                for &f in &order { p.push_str(&format!("    jal fn_{f}\n")); }
                p.push_str("    li a7, 10\n    ecall\n");
                for (f, &b) in idx.iter().enumerate() { p.push_str(&format!("fn_{f}:\n{}\n", BODIES[b])); }
                p.push_str("shared:\n    addi a1, a1, 1\n    ret\n");
                if run(&p) { return 1; }
            }
            let mut j = 0;
            loop { if j == k { break; } idx[j] += 1; if idx[j] < BODIES.len() { break; } idx[j] = 0; j += 1; }
            if j == k { break; }
        }
    }
    println!("linting finished on all {n} runs (9 hand-written programs with unterminated macros, recursion, mutual recursion, loops around calls, aliases, a handler; every program of 2 or 3 functions with bodies from a pool of 5 that return, jump or branch into a shared tail or fall through, called in every order; 4 runs each)");
    0
}

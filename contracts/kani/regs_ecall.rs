// ---- woven by /verif (unit U2 `regs`): ecall table ----
#[cfg(kani)]
mod verif_kani_ecall {
    use super::environment_in_outs;
    use crate::cfg::verif_kani_regset::view;

    /// For every call number: the argument and result registers of an environment call are
    /// argument registers a0-a7 only (no temporary or saved register is named by the table),
    /// and the lookup never panics.
    #[kani::proof]
    #[kani::unwind(6)]
    fn ecall_table_only_names_a_registers() {
        let n: i32 = kani::any();
        if let Some((args, rets)) = environment_in_outs(n) {
            const A: u32 = 0b1111_1111 << 10;
            assert!(view(&args) & !A == 0);
            assert!(view(&rets) & !A == 0);
        }
        // the two exit calls take no result
        if let Some((_, rets)) = environment_in_outs(10) { assert!(view(&rets) == 0); } else { panic!("ecall 10 unknown"); }
        if let Some((args, rets)) = environment_in_outs(93) { assert!(view(&rets) == 0 && view(&args) == 1 << 10); } else { panic!("ecall 93 unknown"); }
    }
}
